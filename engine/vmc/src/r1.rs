//! R1 — reference RFC 8010 codec. Independent of the `ipp` crate: a strict recursive-descent
//! decoder over wire tokens (deliberately *not* a stack machine like the library's parser) and a
//! straightforward encoder of the RFC 8010 §3 layout.
//!
//! Tag table typed in from RFC 8010 §3.5 and the IANA IPP registry.

use serde_json::{json, Value as Json};
use std::collections::BTreeMap;

pub const TAG_OPERATION: u8 = 0x01;
pub const TAG_JOB: u8 = 0x02;
pub const TAG_END: u8 = 0x03;
pub const TAG_PRINTER: u8 = 0x04;
pub const TAG_UNSUPPORTED_GROUP: u8 = 0x05;

pub const T_UNSUPPORTED: u8 = 0x10;
pub const T_UNKNOWN: u8 = 0x12;
pub const T_NOVALUE: u8 = 0x13;
pub const T_INTEGER: u8 = 0x21;
pub const T_BOOLEAN: u8 = 0x22;
pub const T_ENUM: u8 = 0x23;
pub const T_OCTETSTRING: u8 = 0x30;
pub const T_DATETIME: u8 = 0x31;
pub const T_RESOLUTION: u8 = 0x32;
pub const T_RANGE: u8 = 0x33;
pub const T_BEGCOLLECTION: u8 = 0x34;
pub const T_TEXTLANG: u8 = 0x35;
pub const T_NAMELANG: u8 = 0x36;
pub const T_ENDCOLLECTION: u8 = 0x37;
pub const T_TEXT: u8 = 0x41;
pub const T_NAME: u8 = 0x42;
pub const T_KEYWORD: u8 = 0x44;
pub const T_URI: u8 = 0x45;
pub const T_URISCHEME: u8 = 0x46;
pub const T_CHARSET: u8 = 0x47;
pub const T_NATLANG: u8 = 0x48;
pub const T_MIME: u8 = 0x49;
pub const T_MEMBERNAME: u8 = 0x4a;

/// character-string syntaxes carried as `Val::Str(tag, octets)`
pub const STR_TAGS: [u8; 9] = [T_TEXT, T_NAME, T_KEYWORD, T_URI, T_URISCHEME, T_CHARSET, T_NATLANG, T_MIME, T_MEMBERNAME];

/// every value tag of 0x10..=0x4a that no typed syntax claims (carried as `Val::Unknown`)
pub fn unclaimed_tags() -> Vec<u8> {
    (0x10u8..=0x4a)
        .filter(|t| {
            !matches!(
                *t,
                T_NOVALUE
                    | T_INTEGER
                    | T_BOOLEAN
                    | T_ENUM
                    | T_OCTETSTRING
                    | T_DATETIME
                    | T_RESOLUTION
                    | T_RANGE
                    | T_BEGCOLLECTION
                    | T_TEXTLANG
                    | T_NAMELANG
                    | T_ENDCOLLECTION
            ) && !STR_TAGS.contains(t)
        })
        .collect()
}

#[derive(Clone, Debug, PartialEq, Eq, Hash, PartialOrd, Ord)]
pub enum Val {
    Int(i32),
    Bool(bool),
    Enum(i32),
    Octets(Vec<u8>),
    DateTime([u8; 11]),
    Resolution(i32, i32, i8),
    Range(i32, i32),
    TextLang(Vec<u8>, Vec<u8>),
    NameLang(Vec<u8>, Vec<u8>),
    /// character-string syntaxes: (tag, octets)
    Str(u8, Vec<u8>),
    /// no-value (0x13, always empty)
    NoValue,
    /// any other value tag in 0x10..=0x4a: (tag, octets)
    Unknown(u8, Vec<u8>),
    /// ordered, multi-valued members
    Coll(Vec<(Vec<u8>, Vec<Val>)>),
}

#[derive(Clone, Debug, PartialEq, Eq, Hash)]
pub struct Attr {
    pub name: Vec<u8>,
    pub values: Vec<Val>,
}

#[derive(Clone, Debug, PartialEq, Eq, Hash)]
pub struct Group {
    pub tag: u8,
    pub attrs: Vec<Attr>,
}

#[derive(Clone, Debug, PartialEq, Eq, Hash)]
pub struct Msg {
    pub version: u16,
    pub code: u16,
    pub request_id: u32,
    pub groups: Vec<Group>,
    pub data: Vec<u8>,
}

impl Val {
    pub fn tag(&self) -> u8 {
        match self {
            Val::Int(_) => T_INTEGER,
            Val::Bool(_) => T_BOOLEAN,
            Val::Enum(_) => T_ENUM,
            Val::Octets(_) => T_OCTETSTRING,
            Val::DateTime(_) => T_DATETIME,
            Val::Resolution(..) => T_RESOLUTION,
            Val::Range(..) => T_RANGE,
            Val::TextLang(..) => T_TEXTLANG,
            Val::NameLang(..) => T_NAMELANG,
            Val::Str(t, _) => *t,
            Val::NoValue => T_NOVALUE,
            Val::Unknown(t, _) => *t,
            Val::Coll(_) => T_BEGCOLLECTION,
        }
    }

    pub fn kind_name(&self) -> String {
        match self {
            Val::Int(_) => "integer".into(),
            Val::Bool(_) => "boolean".into(),
            Val::Enum(_) => "enum".into(),
            Val::Octets(_) => "octetString".into(),
            Val::DateTime(_) => "dateTime".into(),
            Val::Resolution(..) => "resolution".into(),
            Val::Range(..) => "rangeOfInteger".into(),
            Val::TextLang(..) => "textWithLanguage".into(),
            Val::NameLang(..) => "nameWithLanguage".into(),
            Val::Str(t, _) => format!("str{:02x}", t),
            Val::NoValue => "no-value".into(),
            Val::Unknown(t, _) => format!("other{:02x}", t),
            Val::Coll(_) => "collection".into(),
        }
    }

    pub fn depth(&self) -> usize {
        match self {
            Val::Coll(ms) => 1 + ms.iter().flat_map(|(_, vs)| vs.iter()).map(|v| v.depth()).max().unwrap_or(0),
            _ => 0,
        }
    }

    /// canonical form: collections become sorted-by-name maps (the property compares them as
    /// name→value(s) maps); member order is otherwise not observable.
    pub fn canon(&self) -> Val {
        match self {
            Val::Coll(ms) => {
                let mut m: Vec<(Vec<u8>, Vec<Val>)> =
                    ms.iter().map(|(k, vs)| (k.clone(), vs.iter().map(|v| v.canon()).collect())).collect();
                m.sort_by(|a, b| a.0.cmp(&b.0));
                Val::Coll(m)
            }
            v => v.clone(),
        }
    }

    pub fn to_json(&self) -> Json {
        match self {
            Val::Int(i) => json!({"int": i}),
            Val::Bool(b) => json!({"bool": b}),
            Val::Enum(i) => json!({"enum": i}),
            Val::Octets(o) => json!({"octets": crate::hex(o)}),
            Val::DateTime(d) => json!({"datetime": crate::hex(d)}),
            Val::Resolution(a, b, c) => json!({"res": [a, b, c]}),
            Val::Range(a, b) => json!({"range": [a, b]}),
            Val::TextLang(l, t) => json!({"textlang": [crate::hex(l), crate::hex(t)]}),
            Val::NameLang(l, t) => json!({"namelang": [crate::hex(l), crate::hex(t)]}),
            Val::Str(t, s) => json!({"str": [t, crate::hex(s)]}),
            Val::NoValue => json!("novalue"),
            Val::Unknown(t, s) => json!({"other": [t, crate::hex(s)]}),
            Val::Coll(ms) => Json::Array(
                ms.iter()
                    .map(|(k, vs)| json!({"m": crate::hex(k), "v": vs.iter().map(|v| v.to_json()).collect::<Vec<_>>()}))
                    .collect(),
            ),
        }
    }

    pub fn from_json(j: &Json) -> Option<Val> {
        if j.as_str() == Some("novalue") {
            return Some(Val::NoValue);
        }
        if let Some(arr) = j.as_array() {
            let mut ms = vec![];
            for m in arr {
                let k = crate::unhex(m["m"].as_str()?);
                let vs = m["v"].as_array()?.iter().map(Val::from_json).collect::<Option<Vec<_>>>()?;
                ms.push((k, vs));
            }
            return Some(Val::Coll(ms));
        }
        let o = j.as_object()?;
        let (k, v) = o.iter().next()?;
        let i32of = |x: &Json| x.as_i64().map(|v| v as i32);
        let hx = |x: &Json| x.as_str().map(crate::unhex);
        Some(match k.as_str() {
            "int" => Val::Int(i32of(v)?),
            "bool" => Val::Bool(v.as_bool()?),
            "enum" => Val::Enum(i32of(v)?),
            "octets" => Val::Octets(hx(v)?),
            "datetime" => {
                let b = hx(v)?;
                let mut d = [0u8; 11];
                if b.len() != 11 {
                    return None;
                }
                d.copy_from_slice(&b);
                Val::DateTime(d)
            }
            "res" => Val::Resolution(i32of(&v[0])?, i32of(&v[1])?, v[2].as_i64()? as i8),
            "range" => Val::Range(i32of(&v[0])?, i32of(&v[1])?),
            "textlang" => Val::TextLang(hx(&v[0])?, hx(&v[1])?),
            "namelang" => Val::NameLang(hx(&v[0])?, hx(&v[1])?),
            "str" => Val::Str(v[0].as_u64()? as u8, hx(&v[1])?),
            "other" => Val::Unknown(v[0].as_u64()? as u8, hx(&v[1])?),
            _ => return None,
        })
    }
}

impl Msg {
    pub fn new(version: u16, code: u16, request_id: u32) -> Msg {
        Msg {
            version,
            code,
            request_id,
            groups: vec![],
            data: vec![],
        }
    }

    pub fn to_json(&self) -> Json {
        json!({
            "version": self.version, "code": self.code, "request_id": self.request_id,
            "groups": self.groups.iter().map(|g| json!({
                "tag": g.tag,
                "attrs": g.attrs.iter().map(|a| json!({
                    "name": crate::hex(&a.name),
                    "values": a.values.iter().map(|v| v.to_json()).collect::<Vec<_>>() })).collect::<Vec<_>>()
            })).collect::<Vec<_>>(),
            "data": if self.data.len() <= 64 { json!(crate::hex(&self.data)) } else { json!({"len": self.data.len(), "fnv": format!("{:016x}", crate::fnv(&self.data))}) },
        })
    }

    pub fn from_json(j: &Json) -> Option<Msg> {
        let mut m = Msg::new(j["version"].as_u64()? as u16, j["code"].as_u64()? as u16, j["request_id"].as_u64()? as u32);
        for g in j["groups"].as_array()? {
            let mut grp = Group {
                tag: g["tag"].as_u64()? as u8,
                attrs: vec![],
            };
            for a in g["attrs"].as_array()? {
                grp.attrs.push(Attr {
                    name: crate::unhex(a["name"].as_str()?),
                    values: a["values"].as_array()?.iter().map(Val::from_json).collect::<Option<Vec<_>>>()?,
                });
            }
            m.groups.push(grp);
        }
        if let Some(s) = j["data"].as_str() {
            m.data = crate::unhex(s);
        }
        Some(m)
    }

    pub fn max_depth(&self) -> usize {
        self.groups
            .iter()
            .flat_map(|g| g.attrs.iter())
            .flat_map(|a| a.values.iter())
            .map(|v| v.depth())
            .max()
            .unwrap_or(0)
    }

    /// Canonical comparison form: groups in order, attributes of a group as a name→values map.
    pub fn canon(&self) -> CMsg {
        CMsg {
            version: self.version,
            code: self.code,
            request_id: self.request_id,
            groups: self
                .groups
                .iter()
                .map(|g| {
                    let mut m = BTreeMap::new();
                    for a in &g.attrs {
                        m.insert(a.name.clone(), a.values.iter().map(|v| v.canon()).collect::<Vec<_>>());
                    }
                    (g.tag, m)
                })
                .collect(),
            data: self.data.clone(),
        }
    }
}

/// Canonical (order-insensitive inside a group) form of a message.
#[derive(Clone, Debug, PartialEq, Eq)]
pub struct CMsg {
    pub version: u16,
    pub code: u16,
    pub request_id: u32,
    pub groups: Vec<(u8, BTreeMap<Vec<u8>, Vec<Val>>)>,
    pub data: Vec<u8>,
}

impl CMsg {
    /// first difference, human readable
    pub fn diff(&self, other: &CMsg) -> Option<String> {
        if (self.version, self.code, self.request_id) != (other.version, other.code, other.request_id) {
            return Some(format!(
                "header {:04x}/{:04x}/{} vs {:04x}/{:04x}/{}",
                self.version, self.code, self.request_id, other.version, other.code, other.request_id
            ));
        }
        if self.groups.len() != other.groups.len() {
            return Some(format!(
                "group count {} vs {} (tags {:?} vs {:?})",
                self.groups.len(),
                other.groups.len(),
                self.groups.iter().map(|g| g.0).collect::<Vec<_>>(),
                other.groups.iter().map(|g| g.0).collect::<Vec<_>>()
            ));
        }
        for (i, (a, b)) in self.groups.iter().zip(other.groups.iter()).enumerate() {
            if a.0 != b.0 {
                return Some(format!("group {} tag {:02x} vs {:02x}", i, a.0, b.0));
            }
            for (k, v) in &a.1 {
                match b.1.get(k) {
                    None => return Some(format!("group {} attribute {:?} missing on the right", i, String::from_utf8_lossy(k))),
                    Some(w) if w != v => {
                        return Some(format!(
                            "group {} attribute {:?}: {} vs {}",
                            i,
                            String::from_utf8_lossy(k),
                            Json::Array(v.iter().map(|x| x.to_json()).collect()),
                            Json::Array(w.iter().map(|x| x.to_json()).collect())
                        ))
                    }
                    _ => {}
                }
            }
            for k in b.1.keys() {
                if !a.1.contains_key(k) {
                    return Some(format!("group {} attribute {:?} missing on the left", i, String::from_utf8_lossy(k)));
                }
            }
        }
        if self.data != other.data {
            return Some(format!("payload differs ({} vs {} bytes)", self.data.len(), other.data.len()));
        }
        None
    }
}

// ---------------------------------------------------------------- encoder

fn put_u16(out: &mut Vec<u8>, v: usize) {
    assert!(v <= 0xffff, "length {} exceeds 16 bits", v);
    out.extend_from_slice(&(v as u16).to_be_bytes());
}

fn value_octets(v: &Val) -> Vec<u8> {
    match v {
        Val::Int(i) | Val::Enum(i) => i.to_be_bytes().to_vec(),
        Val::Bool(b) => vec![*b as u8],
        Val::Octets(o) => o.clone(),
        Val::DateTime(d) => d.to_vec(),
        Val::Resolution(a, b, c) => {
            let mut o = a.to_be_bytes().to_vec();
            o.extend_from_slice(&b.to_be_bytes());
            o.push(*c as u8);
            o
        }
        Val::Range(a, b) => {
            let mut o = a.to_be_bytes().to_vec();
            o.extend_from_slice(&b.to_be_bytes());
            o
        }
        Val::TextLang(l, t) | Val::NameLang(l, t) => {
            let mut o = vec![];
            put_u16(&mut o, l.len());
            o.extend_from_slice(l);
            put_u16(&mut o, t.len());
            o.extend_from_slice(t);
            o
        }
        Val::Str(_, s) => s.clone(),
        Val::NoValue => vec![],
        Val::Unknown(_, s) => s.clone(),
        Val::Coll(_) => vec![],
    }
}

/// encode one value with the given attribute name ("" for additional values)
pub fn encode_value(out: &mut Vec<u8>, name: &[u8], v: &Val) {
    out.push(v.tag());
    put_u16(out, name.len());
    out.extend_from_slice(name);
    let o = value_octets(v);
    put_u16(out, o.len());
    out.extend_from_slice(&o);
    if let Val::Coll(ms) = v {
        for (k, vs) in ms {
            out.push(T_MEMBERNAME);
            put_u16(out, 0);
            put_u16(out, k.len());
            out.extend_from_slice(k);
            for mv in vs {
                encode_value(out, b"", mv);
            }
        }
        out.push(T_ENDCOLLECTION);
        put_u16(out, 0);
        put_u16(out, 0);
    }
}

pub fn encode_attr(out: &mut Vec<u8>, a: &Attr) {
    for (i, v) in a.values.iter().enumerate() {
        encode_value(out, if i == 0 { &a.name } else { b"" }, v);
    }
}

pub fn encode_header(m: &Msg) -> Vec<u8> {
    let mut out = Vec::new();
    out.extend_from_slice(&m.version.to_be_bytes());
    out.extend_from_slice(&m.code.to_be_bytes());
    out.extend_from_slice(&m.request_id.to_be_bytes());
    out
}

/// header + attributes (through the end tag), without the data
pub fn encode_head(m: &Msg) -> Vec<u8> {
    let mut out = encode_header(m);
    for g in &m.groups {
        out.push(g.tag);
        for a in &g.attrs {
            encode_attr(&mut out, a);
        }
    }
    out.push(TAG_END);
    out
}

pub fn encode(m: &Msg) -> Vec<u8> {
    let mut out = encode_head(m);
    out.extend_from_slice(&m.data);
    out
}

// ---------------------------------------------------------------- decoder

#[derive(Clone, Debug, PartialEq, Eq)]
pub enum Tok {
    Delim(u8),
    Value { tag: u8, name: Vec<u8>, data: Vec<u8> },
}

#[derive(Clone, Debug, PartialEq, Eq)]
pub struct Malformed(pub String);

fn bad<T>(s: impl Into<String>) -> Result<T, Malformed> {
    Err(Malformed(s.into()))
}

/// Split the attribute section into tokens. Returns (tokens up to and including the end tag,
/// offset of the first data octet).
pub fn tokenize(b: &[u8]) -> Result<(Vec<Tok>, usize), Malformed> {
    let mut p = 8;
    if b.len() < 8 {
        return bad("short header");
    }
    let mut toks = vec![];
    loop {
        let tag = *b.get(p).ok_or_else(|| Malformed("truncated at tag".into()))?;
        p += 1;
        match tag {
            0x01..=0x05 => {
                toks.push(Tok::Delim(tag));
                if tag == TAG_END {
                    return Ok((toks, p));
                }
            }
            0x10..=0x4a => {
                let rd16 = |p: usize| -> Result<usize, Malformed> {
                    if p + 2 > b.len() {
                        return bad("truncated length");
                    }
                    Ok(u16::from_be_bytes([b[p], b[p + 1]]) as usize)
                };
                let nl = rd16(p)?;
                p += 2;
                if p + nl > b.len() {
                    return bad("truncated name");
                }
                let name = b[p..p + nl].to_vec();
                p += nl;
                let vl = rd16(p)?;
                p += 2;
                if p + vl > b.len() {
                    return bad("truncated value");
                }
                let data = b[p..p + vl].to_vec();
                p += vl;
                toks.push(Tok::Value { tag, name, data });
            }
            t => return bad(format!("tag {:02x} is neither a known delimiter nor a value tag", t)),
        }
    }
}

fn be32(d: &[u8]) -> i32 {
    i32::from_be_bytes([d[0], d[1], d[2], d[3]])
}

/// decode the octets of a non-collection value
pub fn decode_scalar(tag: u8, d: &[u8]) -> Result<Val, Malformed> {
    Ok(match tag {
        T_INTEGER => {
            if d.len() != 4 {
                return bad("integer width");
            }
            Val::Int(be32(d))
        }
        T_ENUM => {
            if d.len() != 4 {
                return bad("enum width");
            }
            Val::Enum(be32(d))
        }
        T_BOOLEAN => {
            if d.len() != 1 || d[0] > 1 {
                return bad("boolean width/value");
            }
            Val::Bool(d[0] == 1)
        }
        T_OCTETSTRING => Val::Octets(d.to_vec()),
        T_DATETIME => {
            if d.len() != 11 {
                return bad("dateTime width");
            }
            let mut a = [0u8; 11];
            a.copy_from_slice(d);
            Val::DateTime(a)
        }
        T_RESOLUTION => {
            if d.len() != 9 {
                return bad("resolution width");
            }
            Val::Resolution(be32(&d[0..4]), be32(&d[4..8]), d[8] as i8)
        }
        T_RANGE => {
            if d.len() != 8 {
                return bad("range width");
            }
            Val::Range(be32(&d[0..4]), be32(&d[4..8]))
        }
        T_TEXTLANG | T_NAMELANG => {
            if d.len() < 4 {
                return bad("with-language too short");
            }
            let ll = u16::from_be_bytes([d[0], d[1]]) as usize;
            if 2 + ll + 2 > d.len() {
                return bad("with-language language length");
            }
            let l = d[2..2 + ll].to_vec();
            let tl = u16::from_be_bytes([d[2 + ll], d[3 + ll]]) as usize;
            if 4 + ll + tl != d.len() {
                return bad("with-language text length");
            }
            let t = d[4 + ll..].to_vec();
            if tag == T_TEXTLANG {
                Val::TextLang(l, t)
            } else {
                Val::NameLang(l, t)
            }
        }
        T_NOVALUE => {
            if !d.is_empty() {
                return bad("no-value with octets");
            }
            Val::NoValue
        }
        t if STR_TAGS.contains(&t) => Val::Str(t, d.to_vec()),
        T_BEGCOLLECTION | T_ENDCOLLECTION => return bad("collection bracket where a scalar is expected"),
        t if (0x10..=0x4a).contains(&t) => Val::Unknown(t, d.to_vec()),
        t => return bad(format!("value tag {:02x} out of range", t)),
    })
}

struct Dec<'a> {
    toks: &'a [Tok],
    p: usize,
}

impl<'a> Dec<'a> {
    fn peek(&self) -> Option<&'a Tok> {
        self.toks.get(self.p)
    }

    /// value := scalar | begCollection member* endCollection ; the begCollection / scalar token has
    /// already been checked for its name by the caller
    fn value(&mut self, tag: u8, data: &[u8]) -> Result<Val, Malformed> {
        if tag == T_BEGCOLLECTION {
            if !data.is_empty() {
                return bad("begCollection with octets");
            }
            let mut members: Vec<(Vec<u8>, Vec<Val>)> = vec![];
            loop {
                match self.peek() {
                    Some(Tok::Value { tag: T_ENDCOLLECTION, name, data }) => {
                        if !name.is_empty() || !data.is_empty() {
                            return bad("endCollection with name or octets");
                        }
                        self.p += 1;
                        break;
                    }
                    Some(Tok::Value { tag: T_MEMBERNAME, name, data }) => {
                        if !name.is_empty() {
                            return bad("memberAttrName with a name");
                        }
                        if members.iter().any(|m| &m.0 == data) {
                            return bad("duplicate member name");
                        }
                        self.p += 1;
                        let mut vals = vec![];
                        loop {
                            match self.peek() {
                                Some(Tok::Value { tag, name, data })
                                    if *tag != T_MEMBERNAME && *tag != T_ENDCOLLECTION =>
                                {
                                    if !name.is_empty() {
                                        return bad("member value with a name");
                                    }
                                    self.p += 1;
                                    vals.push(self.value(*tag, data)?);
                                }
                                _ => break,
                            }
                        }
                        if vals.is_empty() {
                            return bad("member without a value");
                        }
                        members.push((data.clone(), vals));
                    }
                    Some(Tok::Value { .. }) => return bad("member value before any member name"),
                    Some(Tok::Delim(_)) | None => return bad("unterminated collection"),
                }
            }
            Ok(Val::Coll(members))
        } else if tag == T_ENDCOLLECTION {
            bad("endCollection outside a collection")
        } else {
            decode_scalar(tag, data)
        }
    }
}

/// Strict decode of a complete message. `Err` means "not a well-formed RFC 8010 message".
pub fn decode(b: &[u8]) -> Result<Msg, Malformed> {
    let (toks, data_off) = tokenize(b)?;
    let mut m = Msg::new(
        u16::from_be_bytes([b[0], b[1]]),
        u16::from_be_bytes([b[2], b[3]]),
        u32::from_be_bytes([b[4], b[5], b[6], b[7]]),
    );
    m.data = b[data_off..].to_vec();
    let mut d = Dec { toks: &toks, p: 0 };
    match d.peek() {
        Some(Tok::Delim(_)) => {}
        _ => return bad("attribute section does not start with a delimiter"),
    }
    while let Some(t) = d.peek() {
        match t {
            Tok::Delim(TAG_END) => {
                d.p += 1;
                if d.p != toks.len() {
                    return bad("tokens after the end tag");
                }
                return Ok(m);
            }
            Tok::Delim(g) => {
                d.p += 1;
                m.groups.push(Group { tag: *g, attrs: vec![] });
            }
            Tok::Value { tag, name, data } => {
                d.p += 1;
                let grp = m.groups.last_mut().ok_or_else(|| Malformed("value before group".into()))?;
                let v = d.value(*tag, data)?;
                if name.is_empty() {
                    match grp.attrs.last_mut() {
                        Some(a) => a.values.push(v),
                        None => return bad("additional value without an attribute"),
                    }
                } else {
                    if grp.attrs.iter().any(|a| &a.name == name) {
                        return bad("duplicate attribute name in group");
                    }
                    grp.attrs.push(Attr {
                        name: name.clone(),
                        values: vec![v],
                    });
                }
            }
        }
    }
    bad("no end tag")
}

// ---------------------------------------------------------------- lossy-text tolerance

/// "undecodable text is replaced rather than rejected": `got` (a valid UTF-8 string produced by
/// the implementation) matches raw octets `raw` iff, after deleting U+FFFD from both, `got`
/// equals the concatenation of the valid UTF-8 chunks of `raw`, and `got` contains at least one
/// U+FFFD when something in `raw` was invalid.
pub fn lossy_match(raw: &[u8], got: &[u8]) -> bool {
    if std::str::from_utf8(raw).is_ok() {
        return raw == got;
    }
    let got_s = match std::str::from_utf8(got) {
        Ok(s) => s,
        Err(_) => return false,
    };
    let mut valid = String::new();
    for ch in raw.utf8_chunks() {
        valid.push_str(ch.valid());
    }
    let strip = |s: &str| s.chars().filter(|c| *c != '\u{fffd}').collect::<String>();
    got_s.contains('\u{fffd}') && strip(got_s) == strip(&valid)
}

/// compare a raw reference value with the implementation's (UTF-8) image of it
pub fn val_matches(raw: &Val, got: &Val) -> bool {
    match (raw, got) {
        (Val::Octets(a), Val::Octets(b)) => lossy_match(a, b),
        (Val::Str(t, a), Val::Str(u, b)) => t == u && lossy_match(a, b),
        (Val::TextLang(l, t), Val::TextLang(l2, t2)) | (Val::NameLang(l, t), Val::NameLang(l2, t2)) => {
            lossy_match(l, l2) && lossy_match(t, t2)
        }
        (Val::Coll(a), Val::Coll(b)) => {
            // member names may be lossy too: compare position-wise after canonical sort of the raw side by
            // the *got* key order is unknowable; require same length and a matching for each raw member
            if a.len() != b.len() {
                return false;
            }
            let mut used = vec![false; b.len()];
            'outer: for (k, vs) in a {
                for (j, (k2, vs2)) in b.iter().enumerate() {
                    if !used[j] && lossy_match(k, k2) && vs.len() == vs2.len() && vs.iter().zip(vs2).all(|(x, y)| val_matches(x, y)) {
                        used[j] = true;
                        continue 'outer;
                    }
                }
                return false;
            }
            true
        }
        (a, b) => a == b,
    }
}

/// compare a raw reference message with the implementation's image (names and text lossy)
pub fn msg_matches(raw: &Msg, got: &CMsg) -> Option<String> {
    if (raw.version, raw.code, raw.request_id) != (got.version, got.code, got.request_id) {
        return Some("header differs".into());
    }
    if raw.groups.len() != got.groups.len() {
        return Some(format!(
            "group count {} (reference) vs {} (implementation): {:?} vs {:?}",
            raw.groups.len(),
            got.groups.len(),
            raw.groups.iter().map(|g| g.tag).collect::<Vec<_>>(),
            got.groups.iter().map(|g| g.0).collect::<Vec<_>>()
        ));
    }
    for (i, (g, h)) in raw.groups.iter().zip(got.groups.iter()).enumerate() {
        if g.tag != h.0 {
            return Some(format!("group {} tag {:02x} vs {:02x}", i, g.tag, h.0));
        }
        if g.attrs.len() != h.1.len() {
            return Some(format!("group {} has {} attributes, implementation returned {}", i, g.attrs.len(), h.1.len()));
        }
        let mut used: Vec<&Vec<u8>> = vec![];
        for a in &g.attrs {
            let hit = h.1.iter().find(|(k, vs)| {
                !used.contains(k)
                    && lossy_match(&a.name, k)
                    && a.values.len() == vs.len()
                    && a.values.iter().zip(vs.iter()).all(|(x, y)| val_matches(x, y))
            });
            match hit {
                Some((k, _)) => used.push(k),
                None => {
                    return Some(format!(
                        "group {} attribute {:?}: reference {} has no equal in implementation result {}",
                        i,
                        String::from_utf8_lossy(&a.name),
                        Json::Array(a.values.iter().map(|v| v.to_json()).collect()),
                        h.1.iter()
                            .map(|(k, vs)| format!(
                                "{}={}",
                                String::from_utf8_lossy(k),
                                Json::Array(vs.iter().map(|v| v.to_json()).collect())
                            ))
                            .collect::<Vec<_>>()
                            .join(";")
                    ))
                }
            }
        }
    }
    if raw.data != got.data {
        return Some(format!("payload differs ({} vs {} bytes)", raw.data.len(), got.data.len()));
    }
    None
}

#[cfg(test)]
mod tests {
    use super::*;

    #[test]
    fn pinned_vectors() {
        // the vectors pinned by the repository's own tests
        let two_ints = [
            1, 1, 0, 0, 0, 0, 0, 0, 4, 0x21, 0x00, 0x04, b't', b'e', b's', b't', 0x00, 0x04, 0x12, 0x34, 0x56, 0x78,
            0x21, 0x00, 0x00, 0x00, 0x04, 0x77, 0x65, 0x43, 0x21, 3,
        ];
        let m = decode(&two_ints).unwrap();
        assert_eq!(m.groups[0].attrs[0].values, vec![Val::Int(0x12345678), Val::Int(0x77654321)]);
        assert_eq!(encode(&m), two_ints.to_vec());
        let coll = vec![
            1, 1, 0, 0, 0, 0, 0, 0, 4, 0x34, 0, 4, b'c', b'o', b'l', b'l', 0, 0, 0x4a, 0, 0, 0, 4, b'a', b'b', b'c',
            b'd', 0x44, 0, 0, 0, 3, b'k', b'e', b'y', 0x37, 0, 0, 0, 0, 3,
        ];
        let m = decode(&coll).unwrap();
        assert_eq!(
            m.groups[0].attrs[0].values,
            vec![Val::Coll(vec![(b"abcd".to_vec(), vec![Val::Str(T_KEYWORD, b"key".to_vec())])])]
        );
        assert_eq!(encode(&m), coll);
    }

    #[test]
    fn lossy() {
        assert!(lossy_match(b"abc", b"abc"));
        assert!(!lossy_match(b"abc", b"abd"));
        assert!(lossy_match(b"a\xffb", "a\u{fffd}b".as_bytes()));
        assert!(!lossy_match(b"a\xffb", b"ab"));
        assert!(lossy_match(b"a\xf0\x9fb", "a\u{fffd}\u{fffd}b".as_bytes()));
    }
}
