//! Bounded domains shared by several properties (DESIGN §2): D-atoms, D-skel, D-tok, D-corpus, D-mut.

use crate::explore::{explore, Chooser};
use crate::r1::*;

// ------------------------------------------------------------------ D-atoms

pub fn str_witnesses() -> Vec<Vec<u8>> {
    vec![
        b"".to_vec(),
        b"a".to_vec(),
        "ü€𝄞".as_bytes().to_vec(),
        b"\x037".to_vec(),
        b"nul\x00in\x00side".to_vec(),
        vec![b'x'; 127],
        vec![b'x'; 128],
        vec![b'x'; 255],
        vec![b'x'; 256],
        b"0x1f40".to_vec(),
        b"[1,2]".to_vec(),
        b"null".to_vec(),
        // texts that spell a value of ANOTHER kind
        b"1".to_vec(),
        b"true".to_vec(),
        b"-5".to_vec(),
    ]
}

/// boundary witnesses incl. the 8-, 16- and 24-bit sign / width boundaries
pub fn int_witnesses() -> Vec<i32> {
    vec![0, 1, -1, i32::MIN, i32::MAX, 0x01020304, 127, 128, -128, -129, 255, 256, 32767, 32768, -32768, -32769, 65535, 65536, 0x00ff_ffff, -0x0100_0000]
}

/// Every scalar atom of the public value model (boundary witnesses per kind).
pub fn atoms() -> Vec<Val> {
    let mut v = vec![];
    for i in int_witnesses() {
        v.push(Val::Int(i));
    }
    for i in int_witnesses() {
        v.push(Val::Enum(i));
    }
    v.push(Val::Bool(false));
    v.push(Val::Bool(true));
    for (a, b) in [(0, 0), (-1, 1), (i32::MIN, i32::MAX), (0x01020304, 0x05060708)] {
        v.push(Val::Range(a, b));
    }
    for s in str_witnesses() {
        v.push(Val::Octets(s.clone()));
        for t in STR_TAGS {
            v.push(Val::Str(t, s.clone()));
        }
    }
    for (l, t) in [("", ""), ("en", "a"), ("", "t"), ("l", ""), ("fr-ca", "ü€𝄞")] {
        v.push(Val::TextLang(l.as_bytes().to_vec(), t.as_bytes().to_vec()));
        v.push(Val::NameLang(l.as_bytes().to_vec(), t.as_bytes().to_vec()));
    }
    v.push(Val::DateTime([0; 11]));
    v.push(Val::DateTime([0xff; 11]));
    v.push(Val::DateTime([1, 2, 3, 4, 5, 6, 7, 8, 9, 10, 11]));
    v.push(Val::DateTime([0x07, 0xe9, 12, 31, 23, 59, 58, 9, b'+', 13, 45]));
    // every combination of UTC direction and zero / non-zero offset parts (a "-00:00" is not a "+00:00")
    for dir in [b'+', b'-'] {
        for h in [0u8, 1, 13] {
            for m in [0u8, 30, 59] {
                v.push(Val::DateTime([0x07, 0xea, 2, 28, 0, 0, 0, 0, dir, h, m]));
            }
        }
    }
    for (a, b, c) in [(0, 0, 0i8), (1, 2, 3), (i32::MIN, i32::MAX, -128), (0x01020304, 0x05060708, 127)] {
        v.push(Val::Resolution(a, b, c));
    }
    v.push(Val::NoValue);
    for t in unclaimed_tags() {
        for d in [vec![], vec![0u8], vec![0xff, 0x00, 0x80], vec![1, 2, 3, 4]] {
            v.push(Val::Unknown(t, d));
        }
    }
    // raw octets that LOOK like an encoded form (hex literal, base64, JSON): a carrier that signals its encoding in
    // band mistakes them for it
    for t in [0x39u8, 0x3f] {
        for d in ["0x1f40", "0x", "0X1F", "deadbeef", "AAAA", "QUJD", "[1,2]", "\"q\"", "null", "true", "{\"a\":1}", "\\x00", "%00", "b'x'"] {
            v.push(Val::Unknown(t, d.as_bytes().to_vec()));
        }
    }
    v
}

/// 16-bit length sweep: one maximal-length value per variable-length kind.
pub fn max_len_atoms() -> Vec<Val> {
    let mut v = vec![];
    let big = vec![b'y'; 65535];
    v.push(Val::Octets(big.clone()));
    for t in STR_TAGS {
        v.push(Val::Str(t, big.clone()));
    }
    v.push(Val::TextLang(b"en".to_vec(), vec![b'z'; 65535 - 4 - 2]));
    v.push(Val::NameLang(vec![b'l'; 65535 - 4 - 1], b"n".to_vec()));
    v.push(Val::Unknown(0x11, big.clone()));
    v
}

/// signed/unsigned 16-bit boundary: values and inner with-language fields of 32 767 and 32 768 octets
pub fn len_boundary_atoms() -> Vec<Val> {
    let mut v = vec![];
    for l in [32767usize, 32768] {
        v.push(Val::Octets(vec![b'o'; l]));
        v.push(Val::Str(T_TEXT, vec![b't'; l]));
        v.push(Val::Str(T_KEYWORD, vec![b'k'; l]));
        v.push(Val::TextLang(b"en".to_vec(), vec![b'z'; l]));
        v.push(Val::NameLang(vec![b'l'; l], b"n".to_vec()));
        v.push(Val::Unknown(0x11, vec![0xaa; l]));
    }
    v
}

pub fn leaf(i: u32) -> Val {
    match i % 3 {
        0 => Val::Int(1),
        1 => Val::Str(T_KEYWORD, b"k".to_vec()),
        _ => Val::NoValue,
    }
}

pub fn headers() -> [(u16, u16, u32); 3] {
    [(0x0101, 0x000b, 1), (0x0202, 0xffff, 0xffff_ffff), (0, 0, 0)]
}

pub const GROUP_TAGS: [u8; 4] = [TAG_OPERATION, TAG_JOB, TAG_PRINTER, TAG_UNSUPPORTED_GROUP];

// ------------------------------------------------------------------ D-skel

#[derive(Clone, Copy, Debug)]
pub struct SkelBounds {
    pub max_groups: u32,
    pub max_attrs: u32,
    pub max_set: u32,
    pub max_members: u32,
    pub max_depth: u32,
    /// total number of value nodes (leaves + collections) in the message
    pub budget: u32,
    /// first group is always operation-attributes (domain of C01) or free (wire forms, C04)
    pub op_first: bool,
    /// header variant: Some(i) fixed, None = enumerated as part of the space
    pub header: Option<u32>,
}

struct G<'a> {
    ch: &'a mut Chooser,
    budget: u32,
    b: SkelBounds,
}

impl<'a> G<'a> {
    fn elem(&mut self, depth: u32) -> Val {
        // precondition: budget >= 1
        let can_coll = depth < self.b.max_depth;
        let k = self.ch.choose(if can_coll { 4 } else { 3 });
        self.budget -= 1;
        if k < 3 {
            leaf(k)
        } else {
            self.coll(depth + 1)
        }
    }

    fn values(&mut self, depth: u32) -> Vec<Val> {
        // precondition: budget >= 1
        let max_n = self.b.max_set.min(self.budget);
        let n = 1 + self.ch.choose(max_n);
        let mut out = vec![];
        for i in 0..n {
            // keep one unit for every element still to come
            let reserve = n - 1 - i;
            let saved = self.budget;
            self.budget -= reserve;
            let v = self.elem(depth);
            let used = (saved - reserve) - self.budget;
            self.budget = saved - used;
            out.push(v);
        }
        out
    }

    fn coll(&mut self, depth: u32) -> Val {
        let max_m = self.b.max_members.min(self.budget);
        let m = self.ch.choose(max_m + 1);
        let mut members = vec![];
        for i in 0..m {
            let reserve = m - 1 - i;
            let saved = self.budget;
            self.budget -= reserve;
            let vs = self.values(depth);
            let used = (saved - reserve) - self.budget;
            self.budget = saved - used;
            members.push((vec![b'm' + i as u8], vs));
        }
        Val::Coll(members)
    }
}

/// One message of the bounded skeleton grammar, driven by the chooser.
pub fn skel_msg(ch: &mut Chooser, b: SkelBounds) -> Msg {
    let hi = match b.header {
        Some(h) => h,
        None => ch.choose(3),
    };
    let (ver, code, id) = headers()[hi as usize];
    let mut m = Msg::new(ver, code, id);
    let ngroups = 1 + ch.choose(b.max_groups);
    let mut g = G { ch, budget: b.budget, b };
    for gi in 0..ngroups {
        let tag = if gi == 0 && b.op_first {
            TAG_OPERATION
        } else {
            GROUP_TAGS[g.ch.choose(4) as usize]
        };
        let max_a = b.max_attrs.min(g.budget);
        let na = g.ch.choose(max_a + 1);
        let mut grp = Group { tag, attrs: vec![] };
        for ai in 0..na {
            let reserve = na - 1 - ai;
            let saved = g.budget;
            g.budget -= reserve;
            let vs = g.values(0);
            let used = (saved - reserve) - g.budget;
            g.budget = saved - used;
            grp.attrs.push(Attr {
                name: vec![b'a' + ai as u8],
                values: vs,
            });
        }
        m.groups.push(grp);
    }
    m
}

/// Enumerate the whole skeleton space; `f(choices, msg)`.
pub fn for_each_skel(b: SkelBounds, mut f: impl FnMut(&[u32], Msg)) -> u64 {
    let st = explore(None, u64::MAX, |ch| {
        let m = skel_msg(ch, b);
        let c = ch.choices();
        f(&c, m);
    });
    st.executions
}

/// Every atom in every context class, with each neighbour syntax.
/// Returns (context name, message).
pub fn atom_contexts(atom: &Val) -> Vec<(&'static str, Msg)> {
    let mut out = vec![];
    let structural = matches!(atom, Val::Str(T_MEMBERNAME, _));
    let base = |attrs: Vec<Attr>| {
        let mut m = Msg::new(0x0200, 0x0002, 0x01020304);
        m.groups.push(Group {
            tag: TAG_OPERATION,
            attrs,
        });
        m
    };
    let at = |name: &str, values: Vec<Val>| Attr {
        name: name.as_bytes().to_vec(),
        values,
    };
    out.push(("scalar", base(vec![at("x", vec![atom.clone()])])));
    out.push(("set-homog", base(vec![at("x", vec![atom.clone(), atom.clone()])])));
    for n in 0..3 {
        let nb = leaf(n);
        out.push(("set-first", base(vec![at("x", vec![atom.clone(), nb.clone()])])));
        out.push(("set-middle", base(vec![at("x", vec![nb.clone(), atom.clone(), nb.clone()])])));
        out.push(("set-last", base(vec![at("x", vec![nb.clone(), atom.clone()])])));
        if !structural {
            out.push((
                "member",
                base(vec![at("x", vec![Val::Coll(vec![(b"m".to_vec(), vec![atom.clone()]), (b"n".to_vec(), vec![nb.clone()])])])]),
            ));
            out.push((
                "member-after",
                base(vec![at("x", vec![Val::Coll(vec![(b"m".to_vec(), vec![nb.clone()]), (b"n".to_vec(), vec![atom.clone()])])])]),
            ));
            out.push((
                "nested-member",
                base(vec![at(
                    "x",
                    vec![Val::Coll(vec![(
                        b"m".to_vec(),
                        vec![Val::Coll(vec![(b"i".to_vec(), vec![atom.clone()])])],
                    ), (b"n".to_vec(), vec![nb.clone()])])],
                )]),
            ));
            out.push((
                "member-set",
                base(vec![at(
                    "x",
                    vec![Val::Coll(vec![(b"m".to_vec(), vec![nb.clone(), atom.clone(), nb.clone()]), (b"n".to_vec(), vec![atom.clone()])])],
                )]),
            ));
            out.push((
                "set-of-coll",
                base(vec![at(
                    "x",
                    vec![
                        Val::Coll(vec![(b"m".to_vec(), vec![atom.clone()])]),
                        Val::Coll(vec![(b"m".to_vec(), vec![nb.clone()])]),
                    ],
                )]),
            ));
        }
        let mut m = base(vec![at("x", vec![nb.clone()])]);
        m.groups.push(Group {
            tag: TAG_JOB,
            attrs: vec![at("p", vec![nb.clone()]), at("q", vec![atom.clone()])],
        });
        out.push(("second-attr-second-group", m));
    }
    out
}

pub fn payloads_small() -> Vec<Vec<u8>> {
    vec![vec![], vec![0x03], vec![1, 1, 0, 0, 0, 0, 0, 0, 3]]
}

pub fn payload_big(seed: u64) -> Vec<u8> {
    let mut v = Vec::with_capacity(70_000);
    let mut x = 0x9e3779b97f4a7c15u64 ^ seed;
    for _ in 0..70_000 {
        x ^= x << 13;
        x ^= x >> 7;
        x ^= x << 17;
        v.push((x >> 24) as u8);
    }
    v
}

// ------------------------------------------------------------------ D-tok

pub const NTOK: usize = 16;
pub const TOK_NAMES: [&str; NTOK] = [
    "op", "job", "printer", "unsup", "end", "int:a", "kw:b", "+int", "+kw", "beg:c", "+beg", "mem:m", "mem:n", "endcol",
    "noval:o", "+x11",
];

pub fn tok_bytes(t: usize) -> &'static [u8] {
    match t {
        0 => &[0x01],
        1 => &[0x02],
        2 => &[0x04],
        3 => &[0x05],
        4 => &[0x03],
        5 => &[0x21, 0, 1, b'a', 0, 4, 0, 0, 0, 1],
        6 => &[0x44, 0, 1, b'b', 0, 1, b'k'],
        7 => &[0x21, 0, 0, 0, 4, 0, 0, 0, 2],
        8 => &[0x44, 0, 0, 0, 1, b'j'],
        9 => &[0x34, 0, 1, b'c', 0, 0],
        10 => &[0x34, 0, 0, 0, 0],
        11 => &[0x4a, 0, 0, 0, 1, b'm'],
        12 => &[0x4a, 0, 0, 0, 1, b'n'],
        13 => &[0x37, 0, 0, 0, 0],
        14 => &[0x13, 0, 1, b'o', 0, 0],
        15 => &[0x11, 0, 0, 0, 1, 0xff],
        // extended alphabet (NTOK_EXT): the named / unnamed variants the 16-token alphabet lacks
        16 => &[0x4a, 0, 1, b'x', 0, 1, b'm'],
        17 => &[0x37, 0, 1, b'e', 0, 0],
        18 => &[0x13, 0, 0, 0, 0],
        19 => &[0x11, 0, 1, b'u', 0, 1, 0xff],
        _ => unreachable!(),
    }
}

pub const NTOK_EXT: usize = 20;
pub const TOK_NAMES_EXT: [&str; 4] = ["mem:m(named x)", "endcol(named e)", "+noval", "x11:u"];

pub const TOK_HEADER: [u8; 8] = [2, 0, 0, 0x0b, 0, 0, 0, 7];

/// number of token sequences of length <= k
pub fn tok_space(k: u32) -> u64 {
    (0..=k).map(|l| (NTOK as u64).pow(l)).sum()
}

/// index -> token sequence (shortest first)
pub fn tok_seq(mut idx: u64) -> Vec<usize> {
    let mut len = 0u32;
    loop {
        let n = (NTOK as u64).pow(len);
        if idx < n {
            break;
        }
        idx -= n;
        len += 1;
    }
    let mut out = vec![0usize; len as usize];
    for i in (0..len as usize).rev() {
        out[i] = (idx % NTOK as u64) as usize;
        idx /= NTOK as u64;
    }
    out
}

pub fn tok_msg(seq: &[usize]) -> Vec<u8> {
    let mut b = TOK_HEADER.to_vec();
    for &t in seq {
        b.extend_from_slice(tok_bytes(t));
    }
    b
}

pub fn tok_names(seq: &[usize]) -> String {
    seq.iter().map(|&t| if t < NTOK { TOK_NAMES[t] } else { TOK_NAMES_EXT[t - NTOK] }).collect::<Vec<_>>().join(" ")
}

/// all words over the EXTENDED 20-token alphabet
pub fn tok_words_ext(min_len: usize, max_len: usize) -> Vec<Vec<usize>> {
    let mut out = vec![];
    for l in min_len..=max_len {
        for idx in 0..(NTOK_EXT as u64).pow(l as u32) {
            let mut w = vec![0usize; l];
            let mut x = idx;
            for i in (0..l).rev() {
                w[i] = (x % NTOK_EXT as u64) as usize;
                x /= NTOK_EXT as u64;
            }
            out.push(w);
        }
    }
    out
}

// ------------------------------------------------------------------ periodic families

/// all words over the token alphabet with min_len <= length <= max_len
pub fn tok_words(min_len: usize, max_len: usize) -> Vec<Vec<usize>> {
    let mut out = vec![];
    for l in min_len..=max_len {
        for idx in 0..(NTOK as u64).pow(l as u32) {
            let mut w = vec![0usize; l];
            let mut x = idx;
            for i in (0..l).rev() {
                w[i] = (x % NTOK as u64) as usize;
                x /= NTOK as u64;
            }
            out.push(w);
        }
    }
    out
}

/// header · p · u^n · v^n · s  (the caller appends nothing: an end tag is part of `s` or not present)
#[derive(Clone, Debug, PartialEq, Eq)]
pub struct Periodic {
    pub p: Vec<usize>,
    pub u: Vec<usize>,
    pub v: Vec<usize>,
    pub s: Vec<usize>,
}

impl Periodic {
    pub fn name(&self) -> String {
        format!("[{}] ({})^n ({})^n [{}]", tok_names(&self.p), tok_names(&self.u), tok_names(&self.v), tok_names(&self.s))
    }
    pub fn bytes(&self, n: usize) -> Vec<u8> {
        let mut b = TOK_HEADER.to_vec();
        for &t in &self.p {
            b.extend_from_slice(tok_bytes(t));
        }
        for _ in 0..n {
            for &t in &self.u {
                b.extend_from_slice(tok_bytes(t));
            }
        }
        for _ in 0..n {
            for &t in &self.v {
                b.extend_from_slice(tok_bytes(t));
            }
        }
        for &t in &self.s {
            b.extend_from_slice(tok_bytes(t));
        }
        b
    }
}

/// every family with |p| <= mp, 1 <= |u| <= mu, |v| <= mv, |s| <= ms
pub fn periodic_families(mp: usize, mu: usize, mv: usize, ms: usize) -> Vec<Periodic> {
    let ps = tok_words(0, mp);
    let us = tok_words(1, mu);
    let vs = tok_words(0, mv);
    let ss = tok_words(0, ms);
    let mut out = Vec::with_capacity(ps.len() * us.len() * vs.len() * ss.len());
    for p in &ps {
        for u in &us {
            for v in &vs {
                for s in &ss {
                    out.push(Periodic { p: p.clone(), u: u.clone(), v: v.clone(), s: s.clone() });
                }
            }
        }
    }
    out
}

// ------------------------------------------------------------------ D-corpus

fn at(name: &str, values: Vec<Val>) -> Attr {
    Attr {
        name: name.as_bytes().to_vec(),
        values,
    }
}
fn kw(s: &str) -> Val {
    Val::Str(T_KEYWORD, s.as_bytes().to_vec())
}
fn sv(t: u8, s: &str) -> Val {
    Val::Str(t, s.as_bytes().to_vec())
}

/// printer-like responses and assorted realistic messages
pub fn realistic() -> Vec<(String, Msg)> {
    let mut out = vec![];
    let op = |extra: Vec<Attr>| {
        let mut a = vec![at("attributes-charset", vec![sv(T_CHARSET, "utf-8")]), at("attributes-natural-language", vec![sv(T_NATLANG, "en")])];
        a.extend(extra);
        Group {
            tag: TAG_OPERATION,
            attrs: a,
        }
    };
    let media_col = |x: i32| {
        Val::Coll(vec![
            (
                b"media-size".to_vec(),
                vec![Val::Coll(vec![(b"x-dimension".to_vec(), vec![Val::Int(x)]), (b"y-dimension".to_vec(), vec![Val::Int(29700)])])],
            ),
            (b"media-type".to_vec(), vec![kw("stationery"), kw("photographic")]),
            (b"media-source".to_vec(), vec![kw("main")]),
        ])
    };
    // Get-Printer-Attributes response
    let mut m = Msg::new(0x0200, 0x0000, 42);
    m.groups.push(op(vec![]));
    m.groups.push(Group {
        tag: TAG_PRINTER,
        attrs: vec![
            at("printer-state", vec![Val::Enum(3)]),
            at("printer-state-reasons", vec![kw("none")]),
            at("printer-name", vec![sv(T_NAME, "Büro")]),
            at("printer-info", vec![Val::TextLang(b"de".to_vec(), "Drucker im 2. Stock".as_bytes().to_vec())]),
            at("operations-supported", vec![Val::Enum(2), Val::Enum(4), Val::Enum(5), Val::Enum(6), Val::Enum(8), Val::Enum(9), Val::Enum(10), Val::Enum(11)]),
            at("printer-resolution-supported", vec![Val::Resolution(600, 600, 3), Val::Resolution(1200, 1200, 3)]),
            at("copies-supported", vec![Val::Range(1, 999)]),
            at("printer-up-time", vec![Val::Int(123456)]),
            at("printer-current-time", vec![Val::DateTime([0x07, 0xe9, 6, 15, 12, 30, 1, 5, b'+', 2, 0])]),
            at("media-col-database", vec![media_col(21000), media_col(14800)]),
            at("printer-uri-supported", vec![sv(T_URI, "ipp://printer.example.com/ipp/print"), sv(T_URI, "ipps://printer.example.com/ipp/print")]),
            at("document-format-supported", vec![sv(T_MIME, "application/pdf"), sv(T_MIME, "image/urf"), sv(T_MIME, "application/octet-stream")]),
            at("printer-is-accepting-jobs", vec![Val::Bool(true)]),
            at("printer-alert", vec![Val::Octets(b"code=unknown".to_vec())]),
            at("media-ready", vec![Val::NoValue]),
            at("printer-supply", vec![Val::Unknown(T_UNKNOWN, vec![])]),
        ],
    });
    out.push(("gpa-response".to_string(), m));
    // Get-Jobs response with several job groups
    let mut m = Msg::new(0x0101, 0x0001, 7);
    m.groups.push(op(vec![at("status-message", vec![sv(T_TEXT, "successful-ok-ignored")])]));
    for j in 1..=3 {
        m.groups.push(Group {
            tag: TAG_JOB,
            attrs: vec![
                at("job-id", vec![Val::Int(j)]),
                at("job-state", vec![Val::Enum(3 + j)]),
                at("job-uri", vec![sv(T_URI, &format!("ipp://h/jobs/{}", j))]),
                at("job-state-reasons", vec![kw("none"), kw("job-printing")]),
            ],
        });
    }
    m.groups.push(Group {
        tag: TAG_UNSUPPORTED_GROUP,
        attrs: vec![at("foo", vec![Val::Unknown(T_UNSUPPORTED, vec![])])],
    });
    out.push(("get-jobs-response".to_string(), m));
    // Print-Job request with data
    let mut m = Msg::new(0x0101, 0x0002, 1);
    m.groups.push(op(vec![
        at("printer-uri", vec![sv(T_URI, "ipp://h/p")]),
        at("requesting-user-name", vec![sv(T_NAME, "u")]),
        at("job-name", vec![sv(T_NAME, "j")]),
    ]));
    m.groups.push(Group {
        tag: TAG_JOB,
        attrs: vec![at("copies", vec![Val::Int(2)]), at("media-col", vec![media_col(21000)]), at("sides", vec![kw("two-sided-long-edge")])],
    });
    m.data = b"%PDF-1.4\n\x03\x01\x02".to_vec();
    out.push(("print-job-request".to_string(), m));
    // error response, no groups but operation
    let mut m = Msg::new(0x0101, 0x0503, 9);
    m.groups.push(op(vec![]));
    out.push(("error-response".to_string(), m));
    // stopped printer with reasons set
    let mut m = Msg::new(0x0200, 0x0000, 3);
    m.groups.push(op(vec![]));
    m.groups.push(Group {
        tag: TAG_PRINTER,
        attrs: vec![at("printer-state", vec![Val::Enum(5)]), at("printer-state-reasons", vec![kw("media-jam"), kw("toner-low")])],
    });
    out.push(("stopped-response".to_string(), m));
    out
}

/// D-corpus: fixed, generated list of well-formed messages (name, bytes).
pub fn corpus() -> Vec<(String, Vec<u8>)> {
    let mut out: Vec<(String, Vec<u8>)> = vec![];
    // all well-formed D-tok sequences of <= 4 tokens
    for idx in 0..tok_space(4) {
        let seq = tok_seq(idx);
        let b = tok_msg(&seq);
        if let Ok(m) = decode(&b) {
            // keep those whose end tag is the last token (no trailing junk as data) plus a few with data
            if m.data.is_empty() || seq.len() <= 3 {
                out.push((format!("tok[{}]", tok_names(&seq)), b));
            }
        }
    }
    // one message per kind (first witness of each kind) + boundary strings
    let mut seen = std::collections::BTreeSet::new();
    for a in atoms() {
        let key = a.kind_name();
        let n = seen.iter().filter(|k: &&(String, usize)| k.0 == key).count();
        if n < 2 {
            seen.insert((key.clone(), n));
            let mut m = Msg::new(0x0101, 0, 5);
            m.groups.push(Group {
                tag: TAG_OPERATION,
                attrs: vec![at("v", vec![a.clone()])],
            });
            out.push((format!("atom[{}#{}]", key, n), encode(&m)));
        }
    }
    for (n, m) in realistic() {
        out.push((n, encode(&m)));
    }
    out
}

// ------------------------------------------------------------------ D-mut

#[derive(Clone, Copy, Debug)]
pub struct TokSpan {
    pub start: usize,
    pub end: usize,
    /// offsets of the name-length and value-length fields (value tokens only)
    pub name_len_at: Option<usize>,
    pub value_len_at: Option<usize>,
}

/// token spans of a well-formed message (header excluded)
pub fn spans(b: &[u8]) -> Vec<TokSpan> {
    let mut out = vec![];
    let mut p = 8;
    while p < b.len() {
        let tag = b[p];
        if (0x01..=0x05).contains(&tag) {
            out.push(TokSpan {
                start: p,
                end: p + 1,
                name_len_at: None,
                value_len_at: None,
            });
            p += 1;
            if tag == TAG_END {
                break;
            }
        } else {
            if p + 3 > b.len() {
                break;
            }
            let nl = u16::from_be_bytes([b[p + 1], b[p + 2]]) as usize;
            let vl_at = p + 3 + nl;
            if vl_at + 2 > b.len() {
                break;
            }
            let vl = u16::from_be_bytes([b[vl_at], b[vl_at + 1]]) as usize;
            let end = vl_at + 2 + vl;
            if end > b.len() {
                break;
            }
            out.push(TokSpan {
                start: p,
                end,
                name_len_at: Some(p + 1),
                value_len_at: Some(vl_at),
            });
            p = end;
        }
    }
    out
}

/// Grammar-aware mutations of one message, enumerated exhaustively.
/// `tag_bytes`: which replacement tag bytes to try at every tag position.
pub fn mutations(b: &[u8], tag_bytes: &[u8], mut f: impl FnMut(&str, Vec<u8>)) {
    let sp = spans(b);
    // length fields
    for s in &sp {
        for at in [s.name_len_at, s.value_len_at].into_iter().flatten() {
            let cur = u16::from_be_bytes([b[at], b[at + 1]]);
            for nv in [0u16, cur.wrapping_sub(1), cur.wrapping_add(1), 0xffff, 0x8000] {
                if nv == cur {
                    continue;
                }
                let mut m = b.to_vec();
                m[at..at + 2].copy_from_slice(&nv.to_be_bytes());
                f("len", m);
            }
        }
    }
    // truncation at every offset
    for k in 0..b.len() {
        f("trunc", b[..k].to_vec());
    }
    // token deletion / duplication
    for s in &sp {
        let mut m = b[..s.start].to_vec();
        m.extend_from_slice(&b[s.end..]);
        f("del", m);
        let mut m = b[..s.end].to_vec();
        m.extend_from_slice(&b[s.start..]);
        f("dup", m);
    }
    // tag substitution
    for s in &sp {
        for &t in tag_bytes {
            if t != b[s.start] {
                let mut m = b.to_vec();
                m[s.start] = t;
                f("tag", m);
            }
        }
    }
}

/// splice every token boundary of `a` into every token boundary of `b`
pub fn splices(a: &[u8], b: &[u8], mut f: impl FnMut(Vec<u8>)) {
    let sa = spans(a);
    let sb = spans(b);
    let mut ba: Vec<usize> = sa.iter().map(|s| s.start).collect();
    ba.push(a.len());
    let mut bb: Vec<usize> = sb.iter().map(|s| s.start).collect();
    bb.push(b.len());
    for &x in &ba {
        for &y in &bb {
            let mut m = a[..x].to_vec();
            m.extend_from_slice(&b[y..]);
            f(m);
        }
    }
}

#[cfg(test)]
mod tests {
    use super::*;

    #[test]
    fn skeleton_decode_encode_identity() {
        let b = SkelBounds {
            max_groups: 2,
            max_attrs: 2,
            max_set: 2,
            max_members: 2,
            max_depth: 2,
            budget: 4,
            op_first: true,
            header: None,
        };
        let mut n = 0;
        for_each_skel(b, |_, m| {
            let bytes = encode(&m);
            let d = decode(&bytes).expect("well-formed");
            assert_eq!(d, m);
            n += 1;
        });
        assert!(n > 100);
    }

    #[test]
    fn corpus_is_well_formed() {
        for (n, b) in corpus() {
            assert!(decode(&b).is_ok(), "{}", n);
        }
    }
}

// ------------------------------------------------------------------ D-names (tricky names)

pub const SPECIAL_NAMES: [&str; 5] = ["attributes-charset", "attributes-natural-language", "printer-uri", "job-uri", "job-id"];

/// Names that are NOT one of the five specially treated operation attribute names but equal one of them under a
/// plausible normalisation (ASCII case, surrounding blanks, a trailing NUL, '_' for '-'). Returned with the index of
/// the special name they resemble.
pub fn special_name_lookalikes() -> Vec<(usize, Vec<u8>)> {
    let mut out = vec![];
    for (i, n) in SPECIAL_NAMES.iter().enumerate() {
        let title: String = n
            .split('-')
            .map(|w| {
                let mut c = w.chars();
                match c.next() {
                    Some(f) => f.to_ascii_uppercase().to_string() + c.as_str(),
                    None => String::new(),
                }
            })
            .collect::<Vec<_>>()
            .join("-");
        out.push((i, title.into_bytes()));
        out.push((i, n.to_ascii_uppercase().into_bytes()));
        out.push((i, format!("{} ", n).into_bytes()));
        out.push((i, format!("{}\0", n).into_bytes()));
        out.push((i, n.replace('-', "_").into_bytes()));
    }
    out
}

/// Pairs of DISTINCT names that collide under some plausible normalisation or comparison shortcut: ASCII case,
/// Unicode case, trimming, NUL termination, Unicode normalisation (NFC vs NFD), compatibility forms, truncation
/// to 255 octets, prefix relation, and the empty name.
pub fn name_twins() -> Vec<(Vec<u8>, Vec<u8>)> {
    let s = |x: &str| x.as_bytes().to_vec();
    let long_a = vec![b'p'; 255];
    let mut long_b = long_a.clone();
    long_b.push(b'q');
    vec![
        (s("marker-levels"), s("Marker-Levels")),
        (s("media"), s("MEDIA")),
        (s("größe"), s("GRÖSSE")),
        (s("a"), s("a ")),
        (s("a"), s(" a")),
        (s("a"), s("a\0")),
        (s("a"), s("a\0b")),
        (s("\u{e9}t\u{e9}"), s("e\u{301}te\u{301}")),
        (s("\u{212a}"), s("K")),
        (s("\u{fb01}n"), s("fin")),
        (s("ab"), s("abc")),
        (long_a, long_b),
        (s("x-1"), s("x_1")),
        (s("0"), s("00")),
    ]
}

/// Valid UTF-8 names of (at most) the given octet length made of one multi-octet character repeated after
/// 0..width-1 ASCII octets: for character width 2 every octet offset inside the name is a non-boundary in one of
/// the two shifts, for widths 3 and 4 in all but one. Anything that slices, blocks or truncates text by octet
/// count at ANY fixed offset below the length meets a character straddling it.
pub fn multibyte_names(len: usize) -> Vec<Vec<u8>> {
    let mut out = vec![];
    for ch in ["\u{f6}", "\u{20ac}", "\u{1d11e}"] {
        let w = ch.len();
        for shift in 0..w {
            let mut v = vec![b'a'; shift];
            while v.len() + w <= len {
                v.extend_from_slice(ch.as_bytes());
            }
            out.push(v);
        }
    }
    out
}

pub const MULTIBYTE_LENS: [usize; 6] = [70, 255, 300, 1100, 9000, 33000];

/// Well-formed wire messages carrying the multi-octet texts of `multibyte_names` (whole, and with the last octet
/// chopped so that the text ends inside a character) in each text position: attribute name, text value,
/// language of a textWithLanguage, member name.
pub fn tricky_text_wire(lens: &[usize]) -> Vec<(String, Vec<u8>)> {
    let mut out = vec![];
    for len in lens {
        for (k, n) in multibyte_names(*len).into_iter().enumerate() {
            for trunc in [false, true] {
                let t: Vec<u8> = if trunc { n[..n.len() - 1].to_vec() } else { n.clone() };
                for pos in 0..4 {
                    let mut m = Msg::new(0x0101, 0x000b, 3);
                    let a = match pos {
                        0 => Attr { name: t.clone(), values: vec![Val::Int(1)] },
                        1 => Attr { name: b"t".to_vec(), values: vec![Val::Str(T_TEXT, t.clone())] },
                        2 => Attr { name: b"l".to_vec(), values: vec![Val::TextLang(t.clone(), b"x".to_vec())] },
                        _ => Attr { name: b"c".to_vec(), values: vec![Val::Coll(vec![(t.clone(), vec![Val::Int(1)])])] },
                    };
                    m.groups.push(Group { tag: TAG_OPERATION, attrs: vec![a, Attr { name: b"z".to_vec(), values: vec![Val::Bool(true)] }] });
                    out.push((format!("mbtext[len={},k={},trunc={},pos={}]", len, k, trunc, pos), encode(&m)));
                }
            }
        }
    }
    out
}

// ------------------------------------------------------------------ further generic dimensions (after seeded round 6)

/// Names that coincide with identifiers of the library's own data model (struct fields, enum variants): a carrier
/// format that flattens or tags by name collides exactly on these.
pub const STRUCTURAL_NAMES: [&str; 22] = [
    "tag", "name", "value", "attributes", "groups", "header", "version", "operation_or_status", "request_id", "payload", "data", "type", "Integer", "Keyword", "Array",
    "Collection", "Other", "language", "text", "min", "$value", "0",
];

/// Length ladder: every multiple of 1024 and of 1000 up to the 16-bit maximum, each with its two neighbours -
/// whatever block size a reader or writer uses internally, a field that is an exact multiple of it is in here.
pub fn length_ladder() -> Vec<usize> {
    let mut v = std::collections::BTreeSet::new();
    for step in [1000usize, 1024] {
        let mut l = step;
        while l <= 65535 {
            for d in [-1i64, 0, 1] {
                let x = l as i64 + d;
                if x >= 1 && x <= 65535 {
                    v.insert(x as usize);
                }
            }
            l += step;
        }
    }
    v.insert(65535);
    v.into_iter().collect()
}

/// One well-formed wire message per ladder length, the long field being an attribute name (pos 0), a text value
/// (pos 1) or a member name (pos 2); a second small attribute follows so that a short read of the long field
/// derails what comes after it.
pub fn ladder_wire(pos: usize) -> Vec<(String, Vec<u8>)> {
    let mut out = vec![];
    for l in length_ladder() {
        let f: Vec<u8> = (0..l).map(|i| b"abcdefghijklmnopqrstuvw"[i % 23]).collect();
        let mut m = Msg::new(0x0101, 0x0000, 5);
        let a = match pos {
            0 => Attr { name: f.clone(), values: vec![Val::Int(1)] },
            1 => Attr { name: b"t".to_vec(), values: vec![Val::Str(T_TEXT, f.clone())] },
            _ => Attr { name: b"c".to_vec(), values: vec![Val::Coll(vec![(f.clone(), vec![Val::Int(1)])])] },
        };
        m.groups.push(Group { tag: TAG_OPERATION, attrs: vec![a, Attr { name: b"z".to_vec(), values: vec![Val::Bool(true), Val::Int(2)] }] });
        out.push((format!("ladder[pos={},len={}]", pos, l), encode(&m)));
    }
    out
}

/// values a peer may put into the two mandatory operation attributes (the library treats these attributes specially)
pub const CHARSETS: [&str; 8] = ["utf-8", "UTF-8", "iso-8859-1", "ISO-8859-1", "us-ascii", "utf-16", "latin1", ""];
pub const NATURAL_LANGUAGES: [&str; 3] = ["en", "de-CH", ""];
