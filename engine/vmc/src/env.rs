//! E4 — scripted environments: one source type implementing both `std::io::Read` and
//! `futures_io::AsyncRead`, answering every call from a script, with a monitor that records what
//! the subject asked for; and a manual executor that owns every wake-up.

use futures_io::AsyncRead;
use std::future::Future;
use std::io::{self, ErrorKind, Read};
use std::pin::Pin;
use std::sync::atomic::{AtomicBool, AtomicUsize, Ordering::SeqCst};
use std::sync::{Arc, Mutex};
use std::task::{Context, Poll, Wake, Waker};

#[derive(Clone, Copy, Debug, PartialEq, Eq)]
pub enum Step {
    /// make this many more bytes available (delivered over as many calls as the reader needs)
    Chunk(usize),
    /// blocking: `Err(Interrupted)` once
    Interrupted,
    /// sticky I/O error
    Error(ErrorKind),
    /// sticky I/O error of the given kind built in a particular SHAPE: 0 = bare kind (no payload), 2 = payload whose
    /// `source()` chain holds ANOTHER io::Error of a different kind (a transport wrapper), 3 = raw OS error number
    /// that maps to the kind (falls back to shape 0 for kinds without one). The kind the subject must report is
    /// always the outer kind, i.e. `err.kind()` of the error handed to it.
    ErrorShaped(ErrorKind, u8),
    /// transient error: returned once, then the script goes on
    ErrorOnce(ErrorKind),
    /// async: `Poll::Pending`; wake immediately (`wake_by_ref` before returning) or deferred
    /// (waker parked in the monitor, fired by the executor after `poll` returned)
    Pending { deferred: bool },
    /// end of stream from here on
    Eof,
}

#[derive(Default)]
pub struct Monitor {
    pub delivered: AtomicUsize,
    pub calls: AtomicUsize,
    /// max over calls of (position + requested length): how far ahead the subject ever *asked*
    pub max_end_requested: AtomicUsize,
    pub max_request: AtomicUsize,
    pub pendings: AtomicUsize,
    pub interrupts: AtomicUsize,
    pub errors: AtomicUsize,
    pub eofs: AtomicUsize,
    pub parked: Mutex<Option<Waker>>,
}

impl Monitor {
    pub fn new() -> Arc<Monitor> {
        Arc::new(Monitor::default())
    }
    pub fn delivered(&self) -> usize {
        self.delivered.load(SeqCst)
    }
    pub fn max_end(&self) -> usize {
        self.max_end_requested.load(SeqCst)
    }
}

pub struct ScriptSource {
    data: Arc<Vec<u8>>,
    pos: usize,
    script: Vec<Step>,
    idx: usize,
    rem: usize,
    pub mon: Arc<Monitor>,
}

impl ScriptSource {
    /// After the script is exhausted everything that remains is available, then EOF.
    pub fn new(data: Arc<Vec<u8>>, script: Vec<Step>, mon: Arc<Monitor>) -> ScriptSource {
        let rem = match script.first() {
            Some(Step::Chunk(n)) => *n,
            _ => 0,
        };
        ScriptSource {
            data,
            pos: 0,
            script,
            idx: 0,
            rem,
            mon,
        }
    }

    pub fn whole(data: Arc<Vec<u8>>, mon: Arc<Monitor>) -> ScriptSource {
        ScriptSource::new(data, vec![], mon)
    }

    fn advance(&mut self) {
        self.idx += 1;
        self.rem = match self.script.get(self.idx) {
            Some(Step::Chunk(n)) => *n,
            _ => 0,
        };
    }

    fn deliver(&mut self, buf: &mut [u8], avail: usize) -> usize {
        let n = buf.len().min(avail).min(self.data.len() - self.pos);
        buf[..n].copy_from_slice(&self.data[self.pos..self.pos + n]);
        self.pos += n;
        self.mon.delivered.fetch_add(n, SeqCst);
        if n == 0 {
            self.mon.eofs.fetch_add(1, SeqCst);
        }
        n
    }

    /// one scripted answer; `None` = Pending
    fn answer(&mut self, buf: &mut [u8], waker: Option<&Waker>) -> Option<io::Result<usize>> {
        self.mon.calls.fetch_add(1, SeqCst);
        self.mon.max_end_requested.fetch_max(self.pos + buf.len(), SeqCst);
        self.mon.max_request.fetch_max(buf.len(), SeqCst);
        if buf.is_empty() {
            return Some(Ok(0));
        }
        loop {
            match self.script.get(self.idx).copied() {
                None => return Some(Ok(self.deliver(buf, usize::MAX))),
                Some(Step::Chunk(_)) => {
                    if self.rem == 0 || self.pos >= self.data.len() {
                        if self.pos >= self.data.len() {
                            return Some(Ok(self.deliver(buf, 0)));
                        }
                        self.advance();
                        continue;
                    }
                    let n = self.deliver(buf, self.rem);
                    self.rem -= n;
                    if self.rem == 0 {
                        self.advance();
                    }
                    return Some(Ok(n));
                }
                Some(Step::Interrupted) => {
                    self.advance();
                    self.mon.interrupts.fetch_add(1, SeqCst);
                    return Some(Err(io::Error::new(ErrorKind::Interrupted, "scripted interrupt")));
                }
                Some(Step::Error(k)) => {
                    self.mon.errors.fetch_add(1, SeqCst);
                    return Some(Err(io::Error::new(k, "scripted fault")));
                }
                Some(Step::ErrorShaped(k, shape)) => {
                    self.mon.errors.fetch_add(1, SeqCst);
                    return Some(Err(shaped_error(k, shape)));
                }
                Some(Step::ErrorOnce(k)) => {
                    self.advance();
                    self.mon.errors.fetch_add(1, SeqCst);
                    return Some(Err(io::Error::new(k, "scripted transient fault")));
                }
                Some(Step::Pending { deferred }) => {
                    match waker {
                        None => {
                            // blocking interface: a not-ready source is WouldBlock
                            self.advance();
                            return Some(Err(io::Error::new(ErrorKind::WouldBlock, "scripted not-ready")));
                        }
                        Some(w) => {
                            self.advance();
                            self.mon.pendings.fetch_add(1, SeqCst);
                            if deferred {
                                *self.mon.parked.lock().unwrap() = Some(w.clone());
                            } else {
                                w.wake_by_ref();
                            }
                            return None;
                        }
                    }
                }
                Some(Step::Eof) => return Some(Ok(self.deliver(buf, 0))),
            }
        }
    }
}

impl Read for ScriptSource {
    fn read(&mut self, buf: &mut [u8]) -> io::Result<usize> {
        self.answer(buf, None).unwrap()
    }
}

impl AsyncRead for ScriptSource {
    fn poll_read(mut self: Pin<&mut Self>, cx: &mut Context<'_>, buf: &mut [u8]) -> Poll<io::Result<usize>> {
        match self.answer(buf, Some(cx.waker())) {
            Some(r) => Poll::Ready(r),
            None => Poll::Pending,
        }
    }
}

struct FlagWaker {
    flag: AtomicBool,
    wakes: AtomicUsize,
}

impl Wake for FlagWaker {
    fn wake(self: Arc<Self>) {
        self.flag.store(true, SeqCst);
        self.wakes.fetch_add(1, SeqCst);
    }
    fn wake_by_ref(self: &Arc<Self>) {
        self.flag.store(true, SeqCst);
        self.wakes.fetch_add(1, SeqCst);
    }
}

#[derive(Debug)]
pub enum Run<T> {
    Done { value: T, polls: usize },
    /// the future returned Pending without arranging any wake-up: it would hang forever
    LostWakeup { polls: usize },
    Horizon { polls: usize },
}

/// Poll `fut` by hand. After `Pending`: wake flag set → poll again; a deferred waker is parked →
/// fire it, poll again; neither → lost wake-up. `spurious_at`: additionally poll once without any
/// wake-up after the given poll number.
pub fn run_manual<F: Future>(fut: F, mon: &Monitor, horizon: usize, spurious_at: Option<usize>) -> Run<F::Output> {
    let mut fut = Box::pin(fut);
    let fw = Arc::new(FlagWaker {
        flag: AtomicBool::new(false),
        wakes: AtomicUsize::new(0),
    });
    let waker = Waker::from(fw.clone());
    let mut cx = Context::from_waker(&waker);
    let mut polls = 0;
    loop {
        if polls >= horizon {
            return Run::Horizon { polls };
        }
        polls += 1;
        match fut.as_mut().poll(&mut cx) {
            Poll::Ready(v) => return Run::Done { value: v, polls },
            Poll::Pending => {
                if spurious_at == Some(polls) {
                    // poll again without consuming any wake-up
                    continue;
                }
                if fw.flag.swap(false, SeqCst) {
                    continue;
                }
                let parked = mon.parked.lock().unwrap().take();
                if let Some(w) = parked {
                    w.wake();
                    if fw.flag.swap(false, SeqCst) {
                        continue;
                    }
                    // the parked waker was not ours (stale clone of another context) — treat as lost
                }
                return Run::LostWakeup { polls };
            }
        }
    }
}

/// chunk script from a composition bitmask: a boundary after byte i (0-based) iff bit i of `mask`
pub fn composition(len: usize, mask: u64) -> Vec<usize> {
    let mut out = vec![];
    let mut cur = 0;
    for i in 0..len {
        cur += 1;
        if i + 1 < len && (mask >> i) & 1 == 1 {
            out.push(cur);
            cur = 0;
        }
    }
    if cur > 0 {
        out.push(cur);
    }
    out
}

pub fn chunks_to_script(chunks: &[usize]) -> Vec<Step> {
    chunks.iter().map(|&n| Step::Chunk(n)).collect()
}

#[derive(Debug)]
struct TransportWrapper {
    cause: io::Error,
}
impl std::fmt::Display for TransportWrapper {
    fn fmt(&self, f: &mut std::fmt::Formatter<'_>) -> std::fmt::Result {
        write!(f, "transport failed")
    }
}
impl std::error::Error for TransportWrapper {
    fn source(&self) -> Option<&(dyn std::error::Error + 'static)> {
        Some(&self.cause)
    }
}

pub const ERROR_SHAPES: [u8; 3] = [0, 2, 3];

pub fn shaped_error(k: ErrorKind, shape: u8) -> io::Error {
    match shape {
        2 => {
            let inner = if k == ErrorKind::ConnectionReset { ErrorKind::TimedOut } else { ErrorKind::ConnectionReset };
            io::Error::new(k, TransportWrapper { cause: io::Error::new(inner, "inner cause") })
        }
        3 => {
            let errno = match k {
                ErrorKind::ConnectionReset => Some(104),
                ErrorKind::ConnectionAborted => Some(103),
                ErrorKind::TimedOut => Some(110),
                ErrorKind::BrokenPipe => Some(32),
                ErrorKind::PermissionDenied => Some(13),
                _ => None,
            };
            match errno {
                Some(e) if io::Error::from_raw_os_error(e).kind() == k => io::Error::from_raw_os_error(e),
                _ => io::Error::from(k),
            }
        }
        _ => io::Error::from(k),
    }
}

pub const FAULT_KINDS: [ErrorKind; 7] = [
    ErrorKind::ConnectionReset,
    ErrorKind::ConnectionAborted,
    ErrorKind::TimedOut,
    ErrorKind::BrokenPipe,
    ErrorKind::UnexpectedEof,
    ErrorKind::PermissionDenied,
    ErrorKind::Other,
];

#[cfg(test)]
mod tests {
    use super::*;

    #[test]
    fn compositions() {
        assert_eq!(composition(4, 0), vec![4]);
        assert_eq!(composition(4, 0b111), vec![1, 1, 1, 1]);
        assert_eq!(composition(4, 0b010), vec![2, 2]);
    }

    #[test]
    fn scripted_read() {
        let mon = Monitor::new();
        let mut s = ScriptSource::new(
            Arc::new(vec![1, 2, 3, 4, 5]),
            vec![Step::Chunk(2), Step::Interrupted, Step::Chunk(1)],
            mon.clone(),
        );
        let mut b = [0u8; 4];
        assert_eq!(s.read(&mut b).unwrap(), 2);
        assert!(s.read(&mut b).is_err());
        assert_eq!(s.read(&mut b).unwrap(), 1);
        assert_eq!(s.read(&mut b).unwrap(), 2);
        assert_eq!(s.read(&mut b).unwrap(), 0);
        assert_eq!(mon.delivered(), 5);
    }
}


// ------------------------------------------------------------------ huge streams without storage

/// `head` followed by `tail_len` pattern bytes computed from their offset (8-byte words of a multiplicative hash), so
/// that gigabytes can be streamed and VERIFIED without ever being stored. Implements Read and AsyncRead (always ready).
pub struct PatternSource {
    head: Arc<Vec<u8>>,
    tail_len: u64,
    pos: u64,
    /// largest number of bytes handed out per call
    pub max_chunk: usize,
}

#[inline]
fn pattern_word(j: u64) -> [u8; 8] {
    (j.wrapping_add(1)).wrapping_mul(0x9E37_79B9_7F4A_7C15).to_le_bytes()
}

/// fill `buf` with the pattern bytes of tail offsets off .. off + buf.len()
pub fn pattern_fill(off: u64, buf: &mut [u8]) {
    let mut i = 0usize;
    let mut o = off;
    while i < buf.len() {
        let w = pattern_word(o / 8);
        let k = (o % 8) as usize;
        let n = (8 - k).min(buf.len() - i);
        buf[i..i + n].copy_from_slice(&w[k..k + n]);
        i += n;
        o += n as u64;
    }
}

impl PatternSource {
    pub fn new(head: Arc<Vec<u8>>, tail_len: u64) -> PatternSource {
        PatternSource { head, tail_len, pos: 0, max_chunk: 1 << 20 }
    }
    fn fill(&mut self, buf: &mut [u8]) -> usize {
        let total = self.head.len() as u64 + self.tail_len;
        let n = (buf.len() as u64).min(total - self.pos).min(self.max_chunk as u64) as usize;
        let mut done = 0;
        if (self.pos as usize) < self.head.len() && self.pos < self.head.len() as u64 {
            let h = &self.head[self.pos as usize..];
            let k = h.len().min(n);
            buf[..k].copy_from_slice(&h[..k]);
            done = k;
        }
        if done < n {
            let off = self.pos + done as u64 - self.head.len() as u64;
            pattern_fill(off, &mut buf[done..n]);
        }
        self.pos += n as u64;
        n
    }
}

impl Read for PatternSource {
    fn read(&mut self, buf: &mut [u8]) -> io::Result<usize> {
        Ok(self.fill(buf))
    }
}

impl AsyncRead for PatternSource {
    fn poll_read(mut self: Pin<&mut Self>, _cx: &mut Context<'_>, buf: &mut [u8]) -> Poll<io::Result<usize>> {
        Poll::Ready(Ok(self.fill(buf)))
    }
}

/// incremental verifier for the tail of a PatternSource
pub struct PatternCheck {
    pub received: u64,
    pub first_mismatch: Option<u64>,
    scratch: Vec<u8>,
}

impl PatternCheck {
    pub fn new() -> PatternCheck {
        PatternCheck { received: 0, first_mismatch: None, scratch: vec![] }
    }
    pub fn feed(&mut self, chunk: &[u8]) {
        if self.first_mismatch.is_none() {
            self.scratch.resize(chunk.len(), 0);
            pattern_fill(self.received, &mut self.scratch);
            if self.scratch != chunk {
                let i = self.scratch.iter().zip(chunk).position(|(a, b)| a != b).unwrap_or(0);
                self.first_mismatch = Some(self.received + i as u64);
            }
        }
        self.received += chunk.len() as u64;
    }
}
