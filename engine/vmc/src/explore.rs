//! E1 — choice-tree explorer (stateless, depth-first, optionally deviation-bounded) and
//! the parallel helpers used by every check.
//!
//! A harness body is a deterministic function of the answers it gets from `Chooser::choose`.
//! Choice 0 is always the default answer. `explore` runs the body with a prefix of forced answers,
//! answers 0 afterwards, records `(n_i, c_i, env_i)` for every point and backtracks over every
//! alternative — for points marked `env` only while the number of non-default environment answers
//! stays within the deviation bound. Executions always run to completion.

use std::sync::atomic::{AtomicUsize, Ordering};
use std::sync::mpsc::sync_channel;
use std::sync::{Arc, Mutex};

#[derive(Clone, Copy, Debug, PartialEq, Eq)]
pub struct Point {
    pub n: u32,
    pub c: u32,
    pub env: bool,
}

pub struct Chooser {
    prefix: Vec<u32>,
    pub trace: Vec<Point>,
    /// set when the prefix asked for an answer that does not exist at that point: the body is not
    /// a deterministic function of its choices (machinery error, never a verdict)
    pub diverged: bool,
}

impl Chooser {
    pub fn new(prefix: Vec<u32>) -> Chooser {
        Chooser {
            prefix,
            trace: Vec::new(),
            diverged: false,
        }
    }

    fn pick(&mut self, n: u32, env: bool) -> u32 {
        assert!(n >= 1);
        let i = self.trace.len();
        let c = if i < self.prefix.len() {
            let c = self.prefix[i];
            if c >= n {
                self.diverged = true;
                0
            } else {
                c
            }
        } else {
            0
        };
        self.trace.push(Point { n, c, env });
        c
    }

    /// structural choice (part of the input / program being enumerated)
    pub fn choose(&mut self, n: u32) -> u32 {
        self.pick(n, false)
    }

    /// environment answer; a non-zero answer is a *deviation*
    pub fn choose_env(&mut self, n: u32) -> u32 {
        self.pick(n, true)
    }

    pub fn flag(&mut self) -> bool {
        self.choose(2) == 1
    }

    pub fn choices(&self) -> Vec<u32> {
        self.trace.iter().map(|p| p.c).collect()
    }

    pub fn deviations(&self) -> u32 {
        self.trace.iter().filter(|p| p.env && p.c != 0).count() as u32
    }
}

#[derive(Default, Debug, Clone)]
pub struct ExploreStats {
    pub executions: u64,
    pub points: u64,
    pub max_depth: usize,
    pub capped: bool,
}

/// Depth-first enumeration of every choice sequence of `body`.
/// `bound`: maximum number of environment deviations (None = unbounded).
/// `cap`: stop after this many executions (reported as capped).
pub fn explore<F>(bound: Option<u32>, cap: u64, mut body: F) -> ExploreStats
where
    F: FnMut(&mut Chooser),
{
    let mut st = ExploreStats::default();
    let mut prefix: Vec<u32> = Vec::new();
    loop {
        let mut ch = Chooser::new(prefix.clone());
        body(&mut ch);
        if ch.diverged || ch.trace.len() < prefix.len() {
            eprintln!(
                "MACHINERY-ERROR explorer: body diverged while replaying prefix {:?} (trace {:?})",
                prefix, ch.trace
            );
            std::process::exit(2);
        }
        st.executions += 1;
        st.points += ch.trace.len() as u64;
        st.max_depth = st.max_depth.max(ch.trace.len());
        if st.executions >= cap {
            st.capped = true;
            return st;
        }
        // find the deepest point that still has an admissible alternative
        let tr = &ch.trace;
        let mut dev_before: Vec<u32> = Vec::with_capacity(tr.len() + 1);
        let mut d = 0;
        for p in tr.iter() {
            dev_before.push(d);
            if p.env && p.c != 0 {
                d += 1;
            }
        }
        let mut next: Option<Vec<u32>> = None;
        for i in (0..tr.len()).rev() {
            let p = tr[i];
            if p.c + 1 >= p.n {
                continue;
            }
            if p.env {
                if let Some(b) = bound {
                    // any non-zero answer here costs one deviation
                    if dev_before[i] + 1 > b {
                        continue;
                    }
                }
            }
            let mut np: Vec<u32> = tr[..i].iter().map(|q| q.c).collect();
            np.push(p.c + 1);
            next = Some(np);
            break;
        }
        match next {
            Some(np) => prefix = np,
            None => return st,
        }
    }
}

/// Run the body once with a fixed choice sequence (replay without the explorer).
pub fn replay_choices<F>(choices: &[u32], mut body: F) -> Chooser
where
    F: FnMut(&mut Chooser),
{
    let mut ch = Chooser::new(choices.to_vec());
    body(&mut ch);
    ch
}

/// Parallel map over an index range with per-thread accumulators.
pub fn par_range<A, F>(threads: usize, n: u64, chunk: u64, init: impl Fn() -> A + Sync, f: F) -> Vec<A>
where
    A: Send,
    F: Fn(&mut A, u64) + Sync,
{
    let next = AtomicUsize::new(0);
    let nchunks = ((n + chunk - 1) / chunk) as usize;
    let mut out = Vec::new();
    std::thread::scope(|s| {
        let mut hs = vec![];
        for _ in 0..threads.max(1) {
            hs.push(s.spawn(|| {
                let mut acc = init();
                loop {
                    let c = next.fetch_add(1, Ordering::Relaxed);
                    if c >= nchunks {
                        break;
                    }
                    let lo = c as u64 * chunk;
                    let hi = (lo + chunk).min(n);
                    for i in lo..hi {
                        f(&mut acc, i);
                    }
                }
                acc
            }));
        }
        for h in hs {
            match h.join() {
                Ok(a) => out.push(a),
                Err(_) => {
                    eprintln!("MACHINERY-ERROR worker thread panicked outside catch_unwind");
                    std::process::exit(2);
                }
            }
        }
    });
    out
}

/// Parallel for-each over a slice with per-thread accumulators.
pub fn par_slice<T, A, F>(threads: usize, items: &[T], init: impl Fn() -> A + Sync, f: F) -> Vec<A>
where
    T: Sync,
    A: Send,
    F: Fn(&mut A, usize, &T) + Sync,
{
    par_range(threads, items.len() as u64, 1.max(items.len() as u64 / (threads as u64 * 64).max(1)), init, |a, i| {
        f(a, i as usize, &items[i as usize])
    })
}

/// Producer / consumers pipeline: `produce` pushes items through `emit`, `threads` workers consume.
pub fn par_pipeline<T, A, P, F>(threads: usize, produce: P, init: impl Fn() -> A + Sync, f: F) -> Vec<A>
where
    T: Send,
    A: Send,
    P: FnOnce(&mut dyn FnMut(T)) + Send,
    F: Fn(&mut A, T) + Sync,
{
    const BATCH: usize = 256;
    let (tx, rx) = sync_channel::<Vec<T>>(threads * 4);
    let rx = Arc::new(Mutex::new(rx));
    let mut out = Vec::new();
    std::thread::scope(|s| {
        let mut hs = vec![];
        for _ in 0..threads.max(1) {
            let rx = rx.clone();
            let f = &f;
            let init = &init;
            hs.push(s.spawn(move || {
                let mut acc = init();
                loop {
                    let batch = {
                        let g = rx.lock().unwrap();
                        g.recv()
                    };
                    match batch {
                        Ok(b) => {
                            for it in b {
                                f(&mut acc, it);
                            }
                        }
                        Err(_) => break,
                    }
                }
                acc
            }));
        }
        {
            let mut buf: Vec<T> = Vec::with_capacity(BATCH);
            let mut emit = |t: T| {
                buf.push(t);
                if buf.len() >= BATCH {
                    let b = std::mem::replace(&mut buf, Vec::with_capacity(BATCH));
                    let _ = tx.send(b);
                }
            };
            produce(&mut emit);
            if !buf.is_empty() {
                let _ = tx.send(buf);
            }
        }
        drop(tx);
        for h in hs {
            match h.join() {
                Ok(a) => out.push(a),
                Err(_) => {
                    eprintln!("MACHINERY-ERROR worker thread panicked outside catch_unwind");
                    std::process::exit(2);
                }
            }
        }
    });
    out
}

/// Mixed-radix decode: case index -> tuple (product spaces).
pub fn unrank(mut idx: u64, radices: &[u64]) -> Vec<u64> {
    let mut out = vec![0; radices.len()];
    for i in (0..radices.len()).rev() {
        out[i] = idx % radices[i];
        idx /= radices[i];
    }
    out
}

pub fn product(radices: &[u64]) -> u64 {
    radices.iter().product()
}

#[cfg(test)]
mod tests {
    use super::*;

    #[test]
    fn explorer_enumerates_product() {
        let mut seen = std::collections::BTreeSet::new();
        let st = explore(None, u64::MAX, |ch| {
            let a = ch.choose(3);
            let b = if a == 1 { ch.choose(2) } else { 0 };
            let c = ch.choose_env(2);
            seen.insert((a, b, c));
        });
        assert_eq!(st.executions, 8);
        assert_eq!(seen.len(), 8);
    }

    #[test]
    fn deviation_bound() {
        let mut n = 0;
        explore(Some(1), u64::MAX, |ch| {
            let mut d = 0;
            for _ in 0..4 {
                if ch.choose_env(3) != 0 {
                    d += 1;
                }
            }
            assert!(d <= 1);
            n += 1;
        });
        // 1 (no deviation) + 4 positions * 2 answers
        assert_eq!(n, 9);
    }
}
