//! vmc — bounded-exhaustive exploration core for the ipp.rs verification harness.
//!
//! * `explore`  — E1 choice-tree explorer (stateless, deviation-bounded DFS) + parallel helpers
//! * `report`   — evidence / violation / replay / known-finding plumbing
//! * `r1`       — R1 reference RFC 8010 codec (independent of the `ipp` crate)
//! * `gen`      — bounded domains (D-atoms, D-skel, D-tok, D-corpus, D-mut)
//! * `env`      — E4 scripted Read / AsyncRead sources and the manual executor
//! * `registry` — R2 registry tables
//! * `uri`      — R3 string-level URI splitter and the D-uri product

pub mod env;
pub mod explore;
pub mod gen;
pub mod r1;
pub mod registry;
pub mod report;
pub mod uri;

pub use serde_json::{json, Value as Json};

/// hex helper used in samples / replays
pub fn hex(b: &[u8]) -> String {
    let mut s = String::with_capacity(b.len() * 2);
    for x in b {
        s.push_str(&format!("{:02x}", x));
    }
    s
}

pub fn unhex(s: &str) -> Vec<u8> {
    let s = s.as_bytes();
    let mut out = Vec::with_capacity(s.len() / 2);
    let mut i = 0;
    while i + 1 < s.len() {
        let h = (s[i] as char).to_digit(16).unwrap_or(0) as u8;
        let l = (s[i + 1] as char).to_digit(16).unwrap_or(0) as u8;
        out.push(h << 4 | l);
        i += 2;
    }
    out
}

/// FNV-1a 64 — deterministic hashing for state dedup (std's RandomState is not reproducible).
pub fn fnv(data: &[u8]) -> u64 {
    let mut h: u64 = 0xcbf29ce484222325;
    for b in data {
        h ^= *b as u64;
        h = h.wrapping_mul(0x100000001b3);
    }
    h
}

/// A `log` sink that EVALUATES every record's arguments (so that code inside logging statements runs, as it does in
/// an application that enables logging) without allocating, and discards the text.
pub struct EvalLogger;

struct Sink(usize);
impl std::fmt::Write for Sink {
    fn write_str(&mut self, s: &str) -> std::fmt::Result {
        self.0 = self.0.wrapping_add(s.len());
        Ok(())
    }
}

impl log::Log for EvalLogger {
    fn enabled(&self, _: &log::Metadata) -> bool {
        true
    }
    fn log(&self, r: &log::Record) {
        use std::fmt::Write;
        let mut s = Sink(0);
        let _ = write!(s, "{}", r.args());
        std::hint::black_box(s.0);
    }
    fn flush(&self) {}
}

static LOGGER: EvalLogger = EvalLogger;

pub fn install_logger(level: log::LevelFilter) {
    let _ = log::set_logger(&LOGGER);
    log::set_max_level(level);
}

/// Last line of defence against a subject that hangs where the harness cannot interrupt it (a blocking client waiting
/// for an answer nobody gives): after `secs` the process reports a machinery failure instead of hanging forever.
pub fn install_watchdog(secs: u64, what: String) {
    std::thread::spawn(move || {
        std::thread::sleep(std::time::Duration::from_secs(secs));
        eprintln!("MACHINERY-ERROR watchdog: {} still running after {} s", what, secs);
        println!("MACHINERY-ERROR watchdog: {} still running after {} s", what, secs);
        std::process::exit(2);
    });
}
