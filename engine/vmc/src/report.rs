//! Evidence / violation / replay / known-finding plumbing shared by every check.

use serde_json::{json, Map, Value as Json};
use std::collections::{BTreeMap, BTreeSet, HashSet};
use std::path::PathBuf;
use std::time::Instant;

#[derive(Clone, Copy, Debug, PartialEq, Eq)]
pub enum Tier {
    Quick,
    Thorough,
}

impl Tier {
    pub fn name(self) -> &'static str {
        match self {
            Tier::Quick => "quick",
            Tier::Thorough => "thorough",
        }
    }
    pub fn pick<T>(self, q: T, t: T) -> T {
        match self {
            Tier::Quick => q,
            Tier::Thorough => t,
        }
    }
}

/// Parsed command line of a harness binary: `<bin> <ID> --tier quick|thorough [--replay FILE]`
#[derive(Clone, Debug)]
pub struct Ctx {
    pub id: String,
    pub tier: Tier,
    pub seed: u64,
    pub replay: Option<PathBuf>,
    pub verif_dir: PathBuf,
    pub threads: usize,
    pub extra: Vec<String>,
}

impl Ctx {
    pub fn from_args() -> Ctx {
        let args: Vec<String> = std::env::args().collect();
        if args.len() < 2 {
            eprintln!("usage: {} <ID> [--tier quick|thorough] [--replay FILE]", args[0]);
            std::process::exit(2);
        }
        let id = args[1].clone();
        let mut tier = match std::env::var("VERIF_TIER").ok().as_deref() {
            Some("thorough") => Tier::Thorough,
            _ => Tier::Quick,
        };
        let mut replay = None;
        let mut extra = vec![];
        let mut i = 2;
        while i < args.len() {
            match args[i].as_str() {
                "--tier" => {
                    i += 1;
                    tier = match args.get(i).map(|s| s.as_str()) {
                        Some("thorough") => Tier::Thorough,
                        Some("quick") => Tier::Quick,
                        other => {
                            eprintln!("bad tier {:?}", other);
                            std::process::exit(2)
                        }
                    };
                }
                "--replay" => {
                    i += 1;
                    replay = args.get(i).map(PathBuf::from);
                }
                other => extra.push(other.to_string()),
            }
            i += 1;
        }
        let seed = std::env::var("VERIF_SEED")
            .ok()
            .and_then(|s| s.parse::<i64>().ok())
            .map(|v| v as u64)
            .unwrap_or(0);
        let verif_dir = std::env::var("VERIF_DIR")
            .map(PathBuf::from)
            .unwrap_or_else(|_| PathBuf::from("/verif"));
        let threads = std::env::var("VERIF_THREADS")
            .ok()
            .and_then(|s| s.parse().ok())
            .unwrap_or_else(|| std::thread::available_parallelism().map(|n| n.get()).unwrap_or(8));
        Ctx {
            id,
            tier,
            seed,
            replay,
            verif_dir,
            threads,
            extra,
        }
    }
}

/// One property violation. `class` is a *narrow* classification computed by the check; it is what
/// `known_findings.json` entries are matched against, so two different failures of the same
/// property never share a class unless they are the same defect.
#[derive(Clone, Debug)]
pub struct Violation {
    pub class: String,
    pub detail: String,
    pub case: Json,
}

/// Per-thread statistics, merged by `Report::absorb`.
#[derive(Default)]
pub struct Stats {
    pub evaluations: u64,
    pub transitions: u64,
    pub traces: u64,
    pub states: HashSet<u64>,
    pub nontrivial: HashSet<u64>,
    pub outcomes: BTreeMap<String, u64>,
    pub counters: BTreeMap<String, u64>,
    pub samples: Vec<Json>,
    pub violations: Vec<Violation>,
    pub max_depth: u64,
    /// counts measured elsewhere (e.g. in worker processes) and added to the set sizes
    pub states_extra: u64,
    pub nontrivial_extra: u64,
}

impl Stats {
    pub fn new() -> Stats {
        Stats::default()
    }
    /// transport form for results computed in a child process (set sizes travel as counts)
    pub fn to_json(&self) -> Json {
        json!({
            "evaluations": self.evaluations, "traces": self.traces, "transitions": self.transitions,
            "states": self.states.len() as u64 + self.states_extra, "nontrivial": self.nontrivial.len() as u64 + self.nontrivial_extra,
            "outcomes": self.outcomes, "counters": self.counters, "samples": self.samples,
            "violations": self.violations.iter().map(|v| json!({"class": v.class, "detail": v.detail, "case": v.case})).collect::<Vec<_>>(),
        })
    }
    pub fn from_json(j: &Json) -> Stats {
        let mut out = Stats::new();
        out.evaluations = j["evaluations"].as_u64().unwrap_or(0);
        out.traces = j["traces"].as_u64().unwrap_or(0);
        out.transitions = j["transitions"].as_u64().unwrap_or(0);
        out.states_extra = j["states"].as_u64().unwrap_or(0);
        out.nontrivial_extra = j["nontrivial"].as_u64().unwrap_or(out.states_extra);
        for (field, map) in [("outcomes", &mut out.outcomes), ("counters", &mut out.counters)] {
            if let Some(o) = j[field].as_object() {
                for (k, v) in o {
                    map.insert(k.clone(), v.as_u64().unwrap_or(0));
                }
            }
        }
        out.counters.remove("violations_total");
        if let Some(s) = j["samples"].as_array() {
            out.samples = s.clone();
        }
        if let Some(vs) = j["violations"].as_array() {
            for v in vs {
                out.violate(v["class"].as_str().unwrap_or(""), v["detail"].as_str().unwrap_or(""), v["case"].clone());
            }
        }
        out
    }
    pub fn outcome(&mut self, class: &str) {
        *self.outcomes.entry(class.to_string()).or_insert(0) += 1;
    }
    pub fn count(&mut self, key: &str, n: u64) {
        *self.counters.entry(key.to_string()).or_insert(0) += n;
    }
    pub fn sample(&mut self, cap: usize, f: impl FnOnce() -> Json) {
        if self.samples.len() < cap {
            self.samples.push(f());
        }
    }
    pub fn violate(&mut self, class: impl Into<String>, detail: impl Into<String>, case: Json) {
        // keep the smallest few witnesses per class (deterministic whatever the thread timing),
        // and every class
        let class = class.into();
        *self.counters.entry("violations_total".to_string()).or_insert(0) += 1;
        let same: Vec<usize> = self.violations.iter().enumerate().filter(|(_, v)| v.class == class).map(|(i, _)| i).collect();
        let v = Violation {
            class,
            detail: detail.into(),
            case,
        };
        if same.len() < 2 {
            if self.violations.len() < 4096 {
                self.violations.push(v);
            }
            return;
        }
        // replace the largest witness of this class if the new one is smaller
        let key = |x: &Violation| (x.detail.len(), x.detail.clone());
        let worst = same.iter().copied().max_by_key(|i| key(&self.violations[*i])).unwrap();
        if key(&v) < key(&self.violations[worst]) {
            self.violations[worst] = v;
        }
    }
    pub fn merge(&mut self, o: Stats) {
        self.evaluations += o.evaluations;
        self.transitions += o.transitions;
        self.traces += o.traces;
        self.states.extend(o.states);
        self.nontrivial.extend(o.nontrivial);
        for (k, v) in o.outcomes {
            *self.outcomes.entry(k).or_insert(0) += v;
        }
        for (k, v) in o.counters {
            *self.counters.entry(k).or_insert(0) += v;
        }
        for s in o.samples {
            if self.samples.len() < 12 {
                self.samples.push(s);
            }
        }
        for v in o.violations {
            let total = self.counters.get("violations_total").copied().unwrap_or(0);
            self.violate(v.class, v.detail, v.case);
            // `violate` counted it again; the totals were already merged with the counters above
            self.counters.insert("violations_total".to_string(), total);
        }
        self.max_depth = self.max_depth.max(o.max_depth);
        self.states_extra += o.states_extra;
        self.nontrivial_extra += o.nontrivial_extra;
    }
}

pub struct Report {
    pub ctx: Ctx,
    pub level: &'static str,
    pub rule: String,
    pub start: Instant,
    pub stats: Stats,
    pub assumptions: Vec<String>,
    pub exhaustive: bool,
    pub caps: Vec<String>,
    pub extra: Map<String, Json>,
    pub sections: Vec<Json>,
}

impl Report {
    pub fn new(ctx: &Ctx, level: &'static str, rule: &str) -> Report {
        Report {
            ctx: ctx.clone(),
            level,
            rule: rule.to_string(),
            start: Instant::now(),
            stats: Stats::new(),
            assumptions: vec![],
            exhaustive: true,
            caps: vec![],
            extra: Map::new(),
            sections: vec![],
        }
    }

    pub fn absorb(&mut self, s: Stats) {
        self.stats.merge(s);
    }

    /// Merge a named sub-exploration and remember its own counts in `coverage.sections`.
    pub fn section(&mut self, name: &str, s: Stats) {
        self.sections.push(json!({
            "name": name,
            "evaluations": s.evaluations,
            "states": s.states.len() as u64 + s.states_extra,
            "distinct_nontrivial": s.nontrivial.len() as u64 + s.nontrivial_extra,
            "transitions": s.transitions,
            "traces": s.traces,
            "outcomes": s.outcomes,
            "counters": s.counters,
            "violations": s.violations.len(),
        }));
        eprintln!(
            "[{}] section {:<28} evals={:<10} states={:<8} transitions={:<10} outcomes={:?} violations={}",
            self.ctx.id,
            name,
            s.evaluations,
            s.states.len() as u64 + s.states_extra,
            s.transitions,
            s.outcomes,
            s.violations.len()
        );
        self.stats.merge(s);
    }

    pub fn assume(&mut self, s: &str) {
        self.assumptions.push(s.to_string());
    }

    pub fn cap(&mut self, s: &str) {
        self.exhaustive = false;
        self.caps.push(s.to_string());
    }

    pub fn set(&mut self, k: &str, v: Json) {
        self.extra.insert(k.to_string(), v);
    }

    /// Machinery failure: never a verdict.
    pub fn machinery(&self, msg: &str) -> ! {
        eprintln!("MACHINERY-ERROR check={} {}", self.ctx.id, msg);
        std::process::exit(2)
    }

    /// Write evidence, print findings, exit with the verdict.
    pub fn finish(mut self) -> ! {
        let wall = self.start.elapsed().as_secs_f64();
        let known = load_known(&self.ctx);
        let mut known_hit: BTreeSet<String> = BTreeSet::new();
        let mut real: Vec<Violation> = vec![];
        let mut all = std::mem::take(&mut self.stats.violations);
        all.sort_by(|a, b| (&a.class, a.detail.len(), &a.detail).cmp(&(&b.class, b.detail.len(), &b.detail)));
        for v in all {
            if let Some(k) = known.iter().find(|k| k.property == self.ctx.id && k.class == v.class) {
                if known_hit.insert(k.id.clone()) {
                    println!("KNOWN-FINDING: property={} {} [{}] e.g. {}", self.ctx.id, k.what, k.id, v.detail);
                }
            } else {
                real.push(v);
            }
        }

        let st = &self.stats;
        let mut cov = Map::new();
        cov.insert("evaluations".into(), json!(st.evaluations));
        cov.insert("distinct_nontrivial".into(), json!(st.nontrivial.len() as u64 + st.nontrivial_extra));
        cov.insert("rule".into(), json!(self.rule));
        cov.insert("samples".into(), Json::Array(st.samples.clone()));
        cov.insert("states".into(), json!(st.states.len() as u64 + st.states_extra));
        cov.insert("transitions".into(), json!(st.transitions));
        cov.insert("traces_validated_against_impl".into(), json!(st.traces));
        cov.insert("exhaustive".into(), json!(self.exhaustive));
        cov.insert("caps_hit".into(), json!(self.caps));
        cov.insert("outcome_classes".into(), json!(st.outcomes));
        cov.insert("counters".into(), json!(st.counters));
        cov.insert("max_depth".into(), json!(st.max_depth));
        cov.insert("sections".into(), Json::Array(self.sections.clone()));
        cov.insert("known_findings_hit".into(), json!(known_hit.iter().collect::<Vec<_>>()));
        for (k, v) in self.extra.iter() {
            cov.insert(k.clone(), v.clone());
        }
        let ev = json!({
            "property_id": self.ctx.id,
            "tier": self.ctx.tier.name(),
            "seed": self.ctx.seed as i64,
            "level": self.level,
            "coverage": Json::Object(cov),
            "assumptions": self.assumptions,
            "wall_s": wall,
            "violations": real.len(),
        });
        if self.ctx.replay.is_none() {
            let dir = self.ctx.verif_dir.join("evidence");
            let _ = std::fs::create_dir_all(&dir);
            let path = dir.join(format!("{}.json", self.ctx.id));
            let tmp = dir.join(format!(".{}.json.tmp", self.ctx.id));
            if std::fs::write(&tmp, serde_json::to_string_pretty(&ev).unwrap()).is_err()
                || std::fs::rename(&tmp, &path).is_err()
            {
                eprintln!("MACHINERY-ERROR check={} cannot write evidence {:?}", self.ctx.id, path);
                std::process::exit(2);
            }
        }
        eprintln!(
            "[{}] tier={} evals={} states={} transitions={} traces={} distinct_nontrivial={} outcomes={:?} wall={:.1}s exhaustive={} caps={:?}",
            self.ctx.id,
            self.ctx.tier.name(),
            st.evaluations,
            st.states.len() as u64 + st.states_extra,
            st.transitions,
            st.traces,
            st.nontrivial.len() as u64 + st.nontrivial_extra,
            st.outcomes,
            wall,
            self.exhaustive,
            self.caps
        );
        if st.evaluations == 0 {
            eprintln!("MACHINERY-ERROR check={} explored nothing", self.ctx.id);
            std::process::exit(2);
        }
        if real.is_empty() {
            println!("OK property={} tier={}", self.ctx.id, self.ctx.tier.name());
            std::process::exit(0);
        }
        // group by class, write one replay per class (first = smallest by enumeration order)
        let rdir = self.ctx.verif_dir.join("replays");
        let _ = std::fs::create_dir_all(&rdir);
        let mut seen: BTreeSet<String> = BTreeSet::new();
        let mut printed = 0;
        for v in &real {
            if !seen.insert(v.class.clone()) {
                continue;
            }
            let body = json!({"property": self.ctx.id, "class": v.class, "detail": v.detail, "case": v.case});
            let text = serde_json::to_string_pretty(&body).unwrap();
            let h = crate::fnv(text.as_bytes());
            let path = rdir.join(format!("{}-{:016x}.json", self.ctx.id, h));
            let _ = std::fs::write(&path, &text);
            if printed < 8 {
                eprintln!("  violation class={} detail={}", v.class, v.detail);
                println!("VIOLATION property={} replay={}", self.ctx.id, path.display());
                printed += 1;
            }
        }
        std::process::exit(1)
    }
}

pub struct Known {
    pub id: String,
    pub property: String,
    pub class: String,
    pub what: String,
}

fn load_known(ctx: &Ctx) -> Vec<Known> {
    let path = ctx.verif_dir.join("known_findings.json");
    let text = match std::fs::read_to_string(&path) {
        Ok(t) => t,
        Err(_) => return vec![],
    };
    let v: Json = match serde_json::from_str(&text) {
        Ok(v) => v,
        Err(e) => {
            eprintln!("MACHINERY-ERROR check={} known_findings.json unreadable: {}", ctx.id, e);
            std::process::exit(2)
        }
    };
    let mut out = vec![];
    if let Some(arr) = v.get("known").and_then(|k| k.as_array()) {
        for k in arr {
            out.push(Known {
                id: k["id"].as_str().unwrap_or("").to_string(),
                property: k["property"].as_str().unwrap_or("").to_string(),
                class: k["class"].as_str().unwrap_or("").to_string(),
                what: k["what"].as_str().unwrap_or("").to_string(),
            });
        }
    }
    out
}

/// Load a replay file written by `finish`; returns (class, case).
pub fn load_replay(path: &std::path::Path) -> (String, Json) {
    let text = std::fs::read_to_string(path).unwrap_or_else(|e| {
        eprintln!("MACHINERY-ERROR cannot read replay {:?}: {}", path, e);
        std::process::exit(2)
    });
    let v: Json = serde_json::from_str(&text).unwrap_or_else(|e| {
        eprintln!("MACHINERY-ERROR bad replay {:?}: {}", path, e);
        std::process::exit(2)
    });
    (v["class"].as_str().unwrap_or("").to_string(), v["case"].clone())
}
