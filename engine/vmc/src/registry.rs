//! R2 — registry tables typed in from RFC 8010 §3.5, RFC 8011 §5.4 / Appendix B, PWG 5100.1 and the
//! CUPS IPP specification. Each entry: (code, accepted spellings of the registry name).

pub type Table = &'static [(u32, &'static [&'static str])];

pub const STATUS: Table = &[
    (0x0000, &["successful-ok"]),
    (0x0001, &["successful-ok-ignored-or-substituted-attributes"]),
    (0x0002, &["successful-ok-conflicting-attributes"]),
    (0x0400, &["client-error-bad-request"]),
    (0x0401, &["client-error-forbidden"]),
    (0x0402, &["client-error-not-authenticated"]),
    (0x0403, &["client-error-not-authorized"]),
    (0x0404, &["client-error-not-possible"]),
    (0x0405, &["client-error-timeout"]),
    (0x0406, &["client-error-not-found"]),
    (0x0407, &["client-error-gone"]),
    (0x0408, &["client-error-request-entity-too-large", "client-error-request-entity-too-long"]),
    (0x0409, &["client-error-request-value-too-long"]),
    (0x040a, &["client-error-document-format-not-supported"]),
    (0x040b, &["client-error-attributes-or-values-not-supported"]),
    (0x040c, &["client-error-uri-scheme-not-supported"]),
    (0x040d, &["client-error-charset-not-supported"]),
    (0x040e, &["client-error-conflicting-attributes"]),
    (0x040f, &["client-error-compression-not-supported"]),
    (0x0410, &["client-error-compression-error"]),
    (0x0411, &["client-error-document-format-error"]),
    (0x0412, &["client-error-document-access-error"]),
    (0x0500, &["server-error-internal-error"]),
    (0x0501, &["server-error-operation-not-supported"]),
    (0x0502, &["server-error-service-unavailable"]),
    (0x0503, &["server-error-version-not-supported"]),
    (0x0504, &["server-error-device-error"]),
    (0x0505, &["server-error-temporary-error"]),
    (0x0506, &["server-error-not-accepting-jobs"]),
    (0x0507, &["server-error-busy"]),
    (0x0508, &["server-error-job-canceled"]),
    (0x0509, &["server-error-multiple-document-jobs-not-supported"]),
];

/// IANA-registered status codes beyond RFC 8011 (RFC 3380/3995/3996/3998, PWG 5100.7/.13/.16/.18; the same
/// consecutive numbering as CUPS' ipp.h). Used only for the
/// by-name rule: a library symbol carrying one of these names must carry this code.
pub const STATUS_EXT: Table = &[
    (0x0003, &["successful-ok-ignored-subscriptions"]),
    (0x0004, &["successful-ok-ignored-notifications"]),
    (0x0005, &["successful-ok-too-many-events"]),
    (0x0006, &["successful-ok-but-cancel-subscription"]),
    (0x0007, &["successful-ok-events-complete"]),
    (0x0413, &["client-error-attributes-not-settable"]),
    (0x0414, &["client-error-ignored-all-subscriptions"]),
    (0x0415, &["client-error-too-many-subscriptions"]),
    (0x0416, &["client-error-ignored-all-notifications"]),
    (0x0417, &["client-error-print-support-file-not-found"]),
    (0x0418, &["client-error-document-password-error", "client-error-document-password"]),
    (0x0419, &["client-error-document-permission-error", "client-error-document-permission"]),
    (0x041a, &["client-error-document-security-error", "client-error-document-security"]),
    (0x041b, &["client-error-document-unprintable-error", "client-error-document-unprintable"]),
    (0x041c, &["client-error-account-info-needed"]),
    (0x041d, &["client-error-account-closed"]),
    (0x041e, &["client-error-account-limit-reached"]),
    (0x041f, &["client-error-account-authorization-failed"]),
    (0x0420, &["client-error-not-fetchable"]),
    (0x050a, &["server-error-printer-is-deactivated"]),
    (0x050b, &["server-error-too-many-jobs"]),
    (0x050c, &["server-error-too-many-documents"]),
];

/// IANA / CUPS operation ids beyond the ones the library knows (by-name rule only)
pub const OPERATIONS_EXT: Table = &[
    (0x000f, &["Reserved-for-a-future-operation"]),
    (0x0013, &["Set-Printer-Attributes"]),
    (0x0014, &["Set-Job-Attributes"]),
    (0x0015, &["Get-Printer-Supported-Values"]),
    (0x0016, &["Create-Printer-Subscriptions"]),
    (0x0017, &["Create-Job-Subscriptions"]),
    (0x0018, &["Get-Subscription-Attributes"]),
    (0x0019, &["Get-Subscriptions"]),
    (0x001a, &["Renew-Subscription"]),
    (0x001b, &["Cancel-Subscription"]),
    (0x001c, &["Get-Notifications"]),
    (0x0022, &["Enable-Printer"]),
    (0x0023, &["Disable-Printer"]),
    (0x0033, &["Cancel-Document"]),
    (0x0034, &["Get-Document-Attributes"]),
    (0x0035, &["Get-Documents"]),
    (0x0038, &["Cancel-Jobs"]),
    (0x0039, &["Cancel-My-Jobs"]),
    (0x003a, &["Resubmit-Job"]),
    (0x003b, &["Close-Job"]),
    (0x003c, &["Identify-Printer"]),
    (0x003d, &["Validate-Document"]),
];

pub const OPERATIONS: Table = &[
    (0x0002, &["Print-Job"]),
    (0x0003, &["Print-URI"]),
    (0x0004, &["Validate-Job"]),
    (0x0005, &["Create-Job"]),
    (0x0006, &["Send-Document"]),
    (0x0007, &["Send-URI"]),
    (0x0008, &["Cancel-Job"]),
    (0x0009, &["Get-Job-Attributes"]),
    (0x000a, &["Get-Jobs"]),
    (0x000b, &["Get-Printer-Attributes"]),
    (0x000c, &["Hold-Job"]),
    (0x000d, &["Release-Job"]),
    (0x000e, &["Restart-Job"]),
    (0x0010, &["Pause-Printer"]),
    (0x0011, &["Resume-Printer"]),
    (0x0012, &["Purge-Jobs"]),
    (0x4001, &["CUPS-Get-Default"]),
    (0x4002, &["CUPS-Get-Printers"]),
    (0x4003, &["CUPS-Add-Modify-Printer"]),
    (0x4004, &["CUPS-Delete-Printer"]),
    (0x4005, &["CUPS-Get-Classes"]),
    (0x4006, &["CUPS-Add-Modify-Class"]),
    (0x4007, &["CUPS-Delete-Class"]),
    (0x4008, &["CUPS-Accept-Jobs"]),
    (0x4009, &["CUPS-Reject-Jobs"]),
    (0x400a, &["CUPS-Set-Default"]),
    (0x400b, &["CUPS-Get-Devices"]),
    (0x400c, &["CUPS-Get-PPDs"]),
    (0x400d, &["CUPS-Move-Job"]),
    (0x400e, &["CUPS-Authenticate-Job"]),
    (0x400f, &["CUPS-Get-PPD"]),
    (0x4027, &["CUPS-Get-Document"]),
    (0x4028, &["CUPS-Create-Local-Printer"]),
];

pub const DELIMITER_TAGS: Table = &[
    (0x01, &["operation-attributes-tag", "operation-attributes"]),
    (0x02, &["job-attributes-tag", "job-attributes"]),
    (0x03, &["end-of-attributes-tag", "end-of-attributes"]),
    (0x04, &["printer-attributes-tag", "printer-attributes"]),
    (0x05, &["unsupported-attributes-tag", "unsupported-attributes"]),
];

pub const VALUE_TAGS: Table = &[
    (0x10, &["unsupported"]),
    (0x12, &["unknown"]),
    (0x13, &["no-value"]),
    (0x21, &["integer"]),
    (0x22, &["boolean"]),
    (0x23, &["enum"]),
    (0x30, &["octetString", "octet-string-unspecified"]),
    (0x31, &["dateTime"]),
    (0x32, &["resolution"]),
    (0x33, &["rangeOfInteger"]),
    (0x34, &["begCollection"]),
    (0x35, &["textWithLanguage"]),
    (0x36, &["nameWithLanguage"]),
    (0x37, &["endCollection"]),
    (0x41, &["textWithoutLanguage"]),
    (0x42, &["nameWithoutLanguage"]),
    (0x44, &["keyword"]),
    (0x45, &["uri"]),
    (0x46, &["uriScheme"]),
    (0x47, &["charset"]),
    (0x48, &["naturalLanguage"]),
    (0x49, &["mimeMediaType"]),
    (0x4a, &["memberAttrName"]),
];

pub const PRINTER_STATE: Table = &[(3, &["idle"]), (4, &["processing"]), (5, &["stopped"])];

pub const JOB_STATE: Table = &[
    (3, &["pending"]),
    (4, &["pending-held"]),
    (5, &["processing"]),
    (6, &["processing-stopped"]),
    (7, &["canceled"]),
    (8, &["aborted"]),
    (9, &["completed"]),
];

pub const ORIENTATION: Table = &[
    (3, &["portrait"]),
    (4, &["landscape"]),
    (5, &["reverse-landscape"]),
    (6, &["reverse-portrait"]),
    (7, &["none"]),
];

pub const PRINT_QUALITY: Table = &[(3, &["draft"]), (4, &["normal"]), (5, &["high"])];

pub const FINISHINGS: Table = &[
    (3, &["none"]),
    (4, &["staple"]),
    (5, &["punch"]),
    (6, &["cover"]),
    (7, &["bind"]),
    (8, &["saddle-stitch"]),
    (9, &["edge-stitch"]),
    (10, &["fold"]),
    (11, &["trim"]),
    (12, &["bale"]),
    (13, &["booklet-maker"]),
    (14, &["jog-offset"]),
    (15, &["coat"]),
    (16, &["laminate"]),
    (20, &["staple-top-left"]),
    (21, &["staple-bottom-left"]),
    (22, &["staple-top-right"]),
    (23, &["staple-bottom-right"]),
    (24, &["edge-stitch-left"]),
    (25, &["edge-stitch-top"]),
    (26, &["edge-stitch-right"]),
    (27, &["edge-stitch-bottom"]),
    (28, &["staple-dual-left"]),
    (29, &["staple-dual-top"]),
    (30, &["staple-dual-right"]),
    (31, &["staple-dual-bottom"]),
    (32, &["staple-triple-left"]),
    (33, &["staple-triple-top"]),
    (34, &["staple-triple-right"]),
    (35, &["staple-triple-bottom"]),
    (50, &["bind-left"]),
    (51, &["bind-top"]),
    (52, &["bind-right"]),
    (53, &["bind-bottom"]),
    (60, &["trim-after-pages"]),
    (61, &["trim-after-documents"]),
    (62, &["trim-after-copies"]),
    (63, &["trim-after-job"]),
    (70, &["punch-top-left"]),
    (71, &["punch-bottom-left"]),
    (72, &["punch-top-right"]),
    (73, &["punch-bottom-right"]),
    (74, &["punch-dual-left"]),
    (75, &["punch-dual-top"]),
    (76, &["punch-dual-right"]),
    (77, &["punch-dual-bottom"]),
    (78, &["punch-triple-left"]),
    (79, &["punch-triple-top"]),
    (80, &["punch-triple-right"]),
    (81, &["punch-triple-bottom"]),
    (82, &["punch-quad-left"]),
    (83, &["punch-quad-top"]),
    (84, &["punch-quad-right"]),
    (85, &["punch-quad-bottom"]),
];

/// lowercase, alphanumerics only: "CUPS-Get-PPDs" == "CupsGetPPDs"
pub fn norm(s: &str) -> String {
    s.chars().filter(|c| c.is_ascii_alphanumeric()).map(|c| c.to_ascii_lowercase()).collect()
}

pub fn lookup_code(t: Table, code: u32) -> Option<&'static [&'static str]> {
    t.iter().find(|e| e.0 == code).map(|e| e.1)
}

pub fn lookup_name(t: Table, ident: &str) -> Option<u32> {
    let n = norm(ident);
    t.iter().find(|e| e.1.iter().any(|s| norm(s) == n)).map(|e| e.0)
}
