//! R3 — string-level RFC 3986 splitter (does not use the `http` crate) and the D-uri product.

#[derive(Clone, Debug, PartialEq, Eq)]
pub struct Parts {
    pub scheme: String,
    pub userinfo: Option<String>,
    pub host: String,
    pub port: Option<String>,
    pub path: String,
    pub query: Option<String>,
}

/// scheme://[userinfo@]host[:port][/path][?query]
pub fn split(s: &str) -> Option<Parts> {
    let (scheme, rest) = s.split_once("://")?;
    let auth_end = rest.find(|c| c == '/' || c == '?' || c == '#').unwrap_or(rest.len());
    let (auth, tail) = rest.split_at(auth_end);
    let (userinfo, hostport) = match auth.rfind('@') {
        Some(i) => (Some(auth[..i].to_string()), &auth[i + 1..]),
        None => (None, auth),
    };
    let (host, port) = if hostport.starts_with('[') {
        let close = hostport.find(']')?;
        let h = &hostport[..=close];
        let r = &hostport[close + 1..];
        if r.is_empty() {
            (h.to_string(), None)
        } else {
            (h.to_string(), Some(r.strip_prefix(':')?.to_string()))
        }
    } else {
        match hostport.rfind(':') {
            Some(i) => (hostport[..i].to_string(), Some(hostport[i + 1..].to_string())),
            None => (hostport.to_string(), None),
        }
    };
    let (path, query) = match tail.find('?') {
        Some(i) => (tail[..i].to_string(), Some(tail[i + 1..].to_string())),
        None => (tail.to_string(), None),
    };
    Some(Parts {
        scheme: scheme.to_string(),
        userinfo,
        host,
        port,
        path,
        query,
    })
}

pub const SCHEMES: [&str; 4] = ["http", "https", "ipp", "ipps"];
pub const USERINFOS: [Option<&str>; 8] = [
    None,
    Some("u"),
    Some("u:p"),
    Some(":p"),
    Some("u%40x:p%3A"),
    Some("a.b:c%2Fd"),
    Some("joe@example.com:s3cret"),
    // contains the host strings "h", "1.2.3.4" and "HOST" (a host that is also the user name is common: pi@pi)
    Some("h:1.2.3.4HOST"),
];
pub const HOSTS: [&str; 8] = [
    "h",
    "printer.example.com",
    "HOST",
    "ho_st",
    "1.2.3.4",
    "[::1]",
    "[2001:db8::1]",
    "[fe80::1%25eth0]",
];
pub const PORTS: [Option<u16>; 7] = [None, Some(1), Some(80), Some(443), Some(631), Some(8443), Some(65535)];
pub const PATHS: [&str; 9] = ["", "/", "/p", "/printers/a%20b", "/a//b;c=d", "/~x/", "/ü", "//ipp/print", "//"];
pub const QUERIES: [Option<&str>; 5] = [None, Some(""), Some("q=1"), Some("a=b&c=d"), Some("u:p@evil")];

pub fn radices() -> [u64; 6] {
    [
        SCHEMES.len() as u64,
        USERINFOS.len() as u64,
        HOSTS.len() as u64,
        PORTS.len() as u64,
        PATHS.len() as u64,
        QUERIES.len() as u64,
    ]
}

#[derive(Clone, Debug)]
pub struct UriCase {
    pub text: String,
    pub scheme: &'static str,
    pub userinfo: Option<&'static str>,
    pub host: &'static str,
    pub port: Option<u16>,
    pub path: &'static str,
    pub query: Option<&'static str>,
}

/// thorough tier: a second, larger product over further shapes (indices total() .. total() + total_ext())
pub const USERINFOS_EXT: [Option<&str>; 8] = [None, Some("user"), Some("u:"), Some("u:p:q"), Some("u;v=1:p"), Some("a@b@c:d"), Some("%00:%ff"), Some("printer.example.com:631")];
pub const HOSTS_EXT: [&str; 8] = ["localhost", "a-b.c-d.example", "xn--bcher-kva.example", "127.0.0.1", "[::ffff:1.2.3.4]", "h.", "0", "ipp"];
pub const PORTS_EXT: [Option<u16>; 6] = [None, Some(631), Some(8080), Some(9100), Some(10), Some(6310)];
pub const PATHS_EXT: [&str; 10] = ["/ipp/print", "/a/b/c/d/e/f", "/%2F", "/a%3Fb", "/printers/x.y~z", "/*", "/a:b", "/a@b", "/a+b,c;d", "/ipp://h/p"];
pub const QUERIES_EXT: [Option<&str>; 7] = [None, Some("a=b@c"), Some("x=%3F"), Some("a+b"), Some("?"), Some("a/b:c"), Some("waitjob=false&x")];

pub fn radices_ext() -> [u64; 6] {
    [SCHEMES.len() as u64, USERINFOS_EXT.len() as u64, HOSTS_EXT.len() as u64, PORTS_EXT.len() as u64, PATHS_EXT.len() as u64, QUERIES_EXT.len() as u64]
}

pub fn total_ext() -> u64 {
    crate::explore::product(&radices_ext())
}

pub fn case(idx: u64) -> UriCase {
    let ext = idx >= total();
    let t = if ext { crate::explore::unrank(idx - total(), &radices_ext()) } else { crate::explore::unrank(idx, &radices()) };
    let scheme = SCHEMES[t[0] as usize];
    let (userinfo, host, port, path, query) = if ext {
        (USERINFOS_EXT[t[1] as usize], HOSTS_EXT[t[2] as usize], PORTS_EXT[t[3] as usize], PATHS_EXT[t[4] as usize], QUERIES_EXT[t[5] as usize])
    } else {
        (USERINFOS[t[1] as usize], HOSTS[t[2] as usize], PORTS[t[3] as usize], PATHS[t[4] as usize], QUERIES[t[5] as usize])
    };
    let mut s = format!("{}://", scheme);
    if let Some(u) = userinfo {
        s.push_str(u);
        s.push('@');
    }
    s.push_str(host);
    if let Some(p) = port {
        s.push_str(&format!(":{}", p));
    }
    s.push_str(path);
    if let Some(q) = query {
        s.push('?');
        s.push_str(q);
    }
    UriCase {
        text: s,
        scheme,
        userinfo,
        host,
        port,
        path,
        query,
    }
}

pub fn total() -> u64 {
    crate::explore::product(&radices())
}

#[cfg(test)]
mod tests {
    use super::*;

    #[test]
    fn split_roundtrip_on_product() {
        assert_eq!(total(), 80640);
        for i in 0..(total() + total_ext()) {
            let c = case(i);
            let p = split(&c.text).unwrap();
            assert_eq!(p.scheme, c.scheme);
            assert_eq!(p.userinfo.as_deref(), c.userinfo);
            assert_eq!(p.host, c.host);
            assert_eq!(p.port, c.port.map(|p| p.to_string()));
            assert_eq!(p.path, c.path);
            assert_eq!(p.query.as_deref(), c.query);
        }
    }
}
