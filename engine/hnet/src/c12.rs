//! C12 — TLS: servers are authenticated unless the caller explicitly opts out.
//! Complete finite matrix, one real handshake per cell against the loopback TLS peer.

use crate::certs::*;
use crate::clients::*;
use crate::peer::*;
use ipp::prelude::*;
use openssl::ssl::{SslAcceptor, SslMethod, SslVersion};
use std::sync::atomic::{AtomicBool, Ordering::SeqCst};
use std::sync::Arc;
use std::time::Duration;
use vmc::explore::par_range;
use vmc::r1;
use vmc::report::{Ctx, Report, Stats};
use vmc::{fnv, json, Json};

const IGNORE: [&str; 5] = ["unset", "false", "true", "true-then-false", "false-then-true"];
const ROOTS: [&str; 7] = ["none", "correct-pem", "correct-der", "unrelated-pem", "correct-der-ending-in-whitespace", "correct-pem-crlf", "correct-pem-with-utf8-explanatory-text"];
const PROTOS: [&str; 3] = ["any", "tls1.2", "tls1.3"];

#[derive(Clone, Copy, Debug)]
struct Cell {
    client: usize,
    ignore: usize,
    root: usize,
    cert: usize,
    proto: usize,
    /// 0 = the target names the host `localhost`, 1 = the target names the address 127.0.0.1
    host: usize,
}

impl Cell {
    fn to_json(&self) -> Json {
        json!({"backend": crate::FLAVOUR, "client": if self.client == 0 { "blocking" } else { "async" }, "ignore_tls_errors": IGNORE[self.ignore],
               "extra_root": ROOTS[self.root], "server_certificate": SERVER_KINDS[self.cert], "protocol": PROTOS[self.proto],
               "target_host": if self.host == 0 { "localhost" } else { "127.0.0.1" },
               "idx": [self.client, self.ignore, self.root, self.cert, self.proto, self.host]})
    }
    fn from_json(j: &Json) -> Option<Cell> {
        let a = j["idx"].as_array()?;
        let g = |i: usize| a.get(i).and_then(|v| v.as_u64()).map(|v| v as usize);
        Some(Cell {
            client: g(0)?,
            ignore: g(1)?,
            root: g(2)?,
            cert: g(3)?,
            proto: g(4)?,
            host: g(5).unwrap_or(0),
        })
    }
    fn expect_accept(&self) -> bool {
        // the certificate matches the name in the target: `valid` carries DNS:localhost, kind 5 carries IP:127.0.0.1
        let matches_host = (self.cert == 0 && self.host == 0) || (self.cert == 5 && self.host == 1);
        // the caller's LAST word counts: true-then-false verifies, false-then-true ignores
        matches!(self.ignore, 2 | 4) || (matches!(self.root, 1 | 2 | 4 | 5 | 6) && matches_host)
    }
}

fn response_bytes() -> Vec<u8> {
    let mut m = r1::Msg::new(0x0101, 0x0000, 1);
    m.groups.push(r1::Group {
        tag: r1::TAG_OPERATION,
        attrs: vec![r1::Attr {
            name: b"attributes-charset".to_vec(),
            values: vec![r1::Val::Str(r1::T_CHARSET, b"utf-8".to_vec())],
        }],
    });
    m.groups.push(r1::Group {
        tag: r1::TAG_PRINTER,
        attrs: vec![r1::Attr {
            name: b"printer-state".to_vec(),
            values: vec![r1::Val::Enum(3)],
        }],
    });
    r1::encode(&m)
}

struct Served {
    connected: bool,
    handshake_ok: bool,
    exchange: Option<Exchange>,
}

fn run_cell(c: &Cell, pki: &Pki, rt: &tokio::runtime::Runtime, st: &mut Stats) {
    st.evaluations += 1;
    st.traces += 1;
    st.transitions += 1;
    let l = Listener::bind();
    let port = l.port;
    let done = Arc::new(AtomicBool::new(false));
    let done2 = done.clone();
    let id = &pki.servers[c.cert].1;
    let mut ab = SslAcceptor::mozilla_intermediate_v5(SslMethod::tls()).expect("acceptor");
    ab.set_private_key(&id.key).unwrap();
    ab.set_certificate(&id.cert).unwrap();
    match c.proto {
        1 => {
            ab.set_min_proto_version(Some(SslVersion::TLS1_2)).unwrap();
            ab.set_max_proto_version(Some(SslVersion::TLS1_2)).unwrap();
        }
        2 => {
            ab.set_min_proto_version(Some(SslVersion::TLS1_3)).unwrap();
            ab.set_max_proto_version(Some(SslVersion::TLS1_3)).unwrap();
        }
        _ => {}
    }
    let acceptor = ab.build();
    let body = response_bytes();
    let server = std::thread::spawn(move || {
        // wait for a connection until the client call has returned
        let mut served = Served {
            connected: false,
            handshake_ok: false,
            exchange: None,
        };
        let t0 = std::time::Instant::now();
        loop {
            if let Some(s) = l.accept(Duration::from_millis(20)) {
                served.connected = true;
                let _ = s.set_read_timeout(Some(Duration::from_secs(5)));
                match acceptor.accept(s) {
                    Ok(mut tls) => {
                        served.handshake_ok = true;
                        let ex = read_request(&mut tls, std::time::Instant::now() + Duration::from_secs(10));
                        if ex.error.is_none() {
                            write_response(&mut tls, &Script::ok(body.clone()));
                        }
                        let _ = tls.shutdown();
                        served.exchange = Some(ex);
                    }
                    Err(_) => {}
                }
                return served;
            }
            if done2.load(SeqCst) || t0.elapsed() > Duration::from_secs(30) {
                return served;
            }
        }
    });
    let mut cfg = Config::default();
    cfg.ignore_tls = match c.ignore {
        0 => None,
        1 | 4 => Some(false),
        _ => Some(true),
    };
    match c.ignore {
        3 => cfg.ignore_tls_then.push(false),
        4 => cfg.ignore_tls_then.push(true),
        _ => {}
    }
    match c.root {
        1 => cfg.ca_certs.push(pki.ca.cert.to_pem().unwrap()),
        2 => cfg.ca_certs.push(pki.ca.cert.to_der().unwrap()),
        3 => cfg.ca_certs.push(pki.unrelated_ca.cert.to_pem().unwrap()),
        4 => cfg.ca_certs.push(pki.ca_der_ws.clone()),
        6 => {
            // RFC 7468 section 2: text outside the encapsulation boundaries is permitted (and real files carry it)
            let mut v = "Wurzelzertifikat f\u{fc}r den Drucker \u{2713}\nsubject=O = vmc verification harness\n".as_bytes().to_vec();
            v.extend_from_slice(&pki.ca.cert.to_pem().unwrap());
            v.extend_from_slice("\n# Ende \u{2014} fin\n".as_bytes());
            cfg.ca_certs.push(v)
        }
        5 => cfg.ca_certs.push(String::from_utf8(pki.ca.cert.to_pem().unwrap()).unwrap().replace('\n', "\r\n").into_bytes()),
        _ => {}
    }
    cfg.timeout_ms = Some(15_000);
    let uri = format!("ipps://{}:{}/ipp/print", if c.host == 0 { "localhost" } else { "127.0.0.1" }, port);
    let req = IppOperationBuilder::get_printer_attributes(uri.parse().unwrap()).build();
    let kind = if c.client == 0 { ClientKind::Blocking } else { ClientKind::Async };
    let result = send(kind, rt, &uri, &cfg, req.into());
    done.store(true, SeqCst);
    let served = server.join().unwrap_or(Served {
        connected: false,
        handshake_ok: false,
        exchange: None,
    });
    let app_bytes = served.exchange.as_ref().map(|e| e.app_bytes).unwrap_or(0);
    let accept = c.expect_accept();
    let key = fnv(c.to_json().to_string().as_bytes());
    st.states.insert(key);
    st.nontrivial.insert(key);
    let describe = format!(
        "{} -> send() = {}, peer: connected={} handshake_ok={} application bytes={}",
        c.to_json(),
        match &result {
            Ok(_) => "Ok".to_string(),
            Err(e) => format!("Err({})", &e[..e.len().min(160)]),
        },
        served.connected,
        served.handshake_ok,
        app_bytes
    );
    let cls_suffix = format!("{}:{}:root={}:cert={}:ignore={}", crate::FLAVOUR, kind.name(), ROOTS[c.root], SERVER_KINDS[c.cert], IGNORE[c.ignore]);
    if accept {
        match &result {
            Ok(m) => {
                let ok_req = served.exchange.as_ref().map(|e| e.error.is_none() && r1::decode(&e.body).is_ok()).unwrap_or(false);
                if m.code != 0 || !ok_req {
                    st.outcome("accepted-but-garbled");
                    st.violate(format!("garbled:{}", cls_suffix), describe.clone(), c.to_json());
                } else {
                    st.outcome("accepted");
                }
            }
            Err(_) => {
                st.outcome("valid-server-rejected");
                st.violate(format!("valid-server-rejected:{}", cls_suffix), describe.clone(), c.to_json());
            }
        }
    } else {
        match &result {
            Ok(_) => {
                st.outcome("unauthenticated-server-accepted");
                st.violate(format!("unauthenticated-server-accepted:{}", cls_suffix), describe.clone(), c.to_json());
            }
            Err(_) if app_bytes > 0 => {
                st.outcome("request-leaked");
                st.violate(format!("request-bytes-reached-unauthenticated-server:{}", cls_suffix), describe.clone(), c.to_json());
            }
            Err(_) => st.outcome("rejected"),
        }
    }
    st.sample(2, || json!({"cell": c.to_json(), "expected": if accept { "accept" } else { "reject" }, "observed": describe}));
}

fn cells(ctx: &Ctx) -> Vec<Cell> {
    let protos: Vec<usize> = if ctx.tier == vmc::report::Tier::Thorough { vec![1, 2] } else { vec![0] };
    let mut v = vec![];
    for proto in protos {
        for client in 0..2 {
            for ignore in 0..IGNORE.len() {
                for root in 0..ROOTS.len() {
                    for cert in 0..5 {
                        v.push(Cell { client, ignore, root, cert, proto, host: 0 });
                    }
                    // the target names an IP address: only a certificate with that address as iPAddress SAN matches
                    v.push(Cell { client, ignore, root, cert: 5, proto, host: 0 });
                    v.push(Cell { client, ignore, root, cert: 5, proto, host: 1 });
                    v.push(Cell { client, ignore, root, cert: 0, proto, host: 1 });
                }
            }
        }
    }
    v
}

/// the small cell set used for the history (ordered pair) exploration
fn pair_cells() -> Vec<Cell> {
    let mut v = vec![];
    for client in 0..2 {
        for ignore in [0usize, 2] {
            for root in [0usize, 1] {
                for cert in [0usize, 3] {
                    v.push(Cell { client, ignore, root, cert, proto: 0, host: 0 });
                }
            }
        }
    }
    v
}

fn run_half(ctx: &Ctx) -> Stats {
    let pki = Pki::new();
    let cs = cells(ctx);
    let mut total = Stats::new();
    let threads = ctx.threads.min(8);
    for p in par_range(threads, cs.len() as u64, 1, || (Stats::new(), runtime()), |acc, i| run_cell(&cs[i as usize], &pki, &acc.1, &mut acc.0)) {
        total.merge(p.0);
    }
    // history: every ORDERED pair of the small cell set (same client kind), each pair in a fresh process, so
    // that process-wide state left behind by the first configuration (caches, statics) is exercised
    // deterministically instead of depending on the thread schedule of the matrix above
    let pc = pair_cells();
    let mut pairs: Vec<(usize, usize)> = vec![];
    for a in 0..pc.len() {
        for b in 0..pc.len() {
            if pc[a].client == pc[b].client {
                pairs.push((a, b));
            }
        }
    }
    let exe = std::env::current_exe().unwrap();
    for p in par_range(ctx.threads, pairs.len() as u64, 1, Stats::new, |st, i| {
        let (a, b) = pairs[i as usize];
        let out = std::process::Command::new(&exe).arg("C12").arg("--pair").arg(a.to_string()).arg(b.to_string()).output();
        let text = out.map(|o| String::from_utf8_lossy(&o.stdout).to_string()).unwrap_or_default();
        match text.lines().find(|l| l.starts_with("PAIR-REPORT ")) {
            Some(line) => {
                let j: Json = serde_json::from_str(&line["PAIR-REPORT ".len()..]).unwrap_or(Json::Null);
                st.merge(Stats::from_json(&j));
            }
            None => {
                eprintln!("MACHINERY-ERROR pair process ({}, {}) produced no report", a, b);
                std::process::exit(2);
            }
        }
    }) {
        total.merge(p);
    }
    total
}

pub fn run(ctx: &Ctx) -> ! {
    crate::adapter::silence_panics();
    // pair mode: configuration A, then configuration B, sequentially in THIS fresh process
    if let Some(i) = ctx.extra.iter().position(|a| a == "--pair") {
        let pc = pair_cells();
        let a: usize = ctx.extra[i + 1].parse().unwrap();
        let b: usize = ctx.extra[i + 2].parse().unwrap();
        let pki = Pki::new();
        let rt = runtime();
        let mut st = Stats::new();
        run_cell(&pc[a], &pki, &rt, &mut st);
        let before = st.violations.len();
        run_cell(&pc[b], &pki, &rt, &mut st);
        // violations of the second configuration are history effects: mark them
        for v in st.violations.iter_mut().skip(before) {
            v.class = format!("after-another-client:{}", v.class);
            v.detail = format!("after {} in the same process: {}", pc[a].to_json(), v.detail);
        }
        for (k, n) in std::mem::take(&mut st.outcomes) {
            st.outcomes.insert(format!("pair:{}", k), n);
        }
        println!("PAIR-REPORT {}", Stats::to_json(&st));
        std::process::exit(0);
    }
    // half mode: run this backend's cells, print a JSON report, exit
    if ctx.extra.iter().any(|a| a == "--half") {
        let st = run_half(ctx);
        println!("HALF-REPORT {}", Stats::to_json(&st));
        std::process::exit(0);
    }
    let mut rep = Report::new(
        ctx,
        "exploration",
        "the complete matrix {blocking, async} x {native-tls, rustls} (two builds) x ignore flag {unset, false, true, true-then-false, false-then-true on one builder} x extra root {none, correct CA as PEM, as DER, unrelated CA, correct CA as a DER encoding whose last octet is ASCII white space (same anchor re-signed until it is), correct CA as PEM with CRLF line ends, correct CA as PEM with UTF-8 explanatory text before and after the armour} x server certificate {valid for localhost, wrong host name, expired, self-signed, issued by an unknown CA} (target names `localhost`) + {certificate for IP 127.0.0.1 with target localhost, the same with target 127.0.0.1, certificate for localhost with target 127.0.0.1} = 1120 configurations (thorough: x {TLS 1.2, TLS 1.3} forced on the peer = 2240), each a real handshake of a real Get-Printer-Attributes request against the loopback TLS peer (openssl acceptor, certificates minted at run time). plus, per backend, every ORDERED pair of an 8-configuration subset per client (128 pairs), each pair run sequentially in a fresh process (history: process-wide state left by the first client must not change the second's verdict). Oracle: accepted <=> the last ignore_tls_errors call said true or (root is the correct CA in any of its five encodings and certificate valid); on rejection send() = Err AND zero application bytes reached the peer. distinct = configuration",
    );
    rep.assume("localhost resolves to 127.0.0.1; the test CA is never in the system trust store");
    if let Some(p) = &ctx.replay {
        let (_, j) = vmc::report::load_replay(p);
        let c = Cell::from_json(&j).unwrap_or_else(|| {
            eprintln!("MACHINERY-ERROR bad replay");
            std::process::exit(2)
        });
        if j["backend"].as_str() != Some(crate::FLAVOUR) {
            // delegate to the other build
            let other = std::env::current_exe().unwrap().with_file_name(if crate::FLAVOUR == "rustls" { "hnet-native" } else { "hnet-rustls" });
            let s = std::process::Command::new(other).arg("C12").arg("--replay").arg(p).status().map(|s| s.code().unwrap_or(2)).unwrap_or(2);
            std::process::exit(s);
        }
        let pki = Pki::new();
        let mut st = Stats::new();
        run_cell(&c, &pki, &runtime(), &mut st);
        for v in &st.violations {
            println!("replay: class={} detail={}", v.class, v.detail);
        }
        rep.absorb(st);
        rep.finish();
    }
    let st = run_half(ctx);
    rep.section(crate::FLAVOUR, st);
    // the other backend: same source, other build
    let other = std::env::current_exe().unwrap().with_file_name(if crate::FLAVOUR == "rustls" { "hnet-native" } else { "hnet-rustls" });
    let out = std::process::Command::new(&other).arg("C12").arg("--tier").arg(ctx.tier.name()).arg("--half").output().unwrap_or_else(|e| {
        eprintln!("MACHINERY-ERROR cannot run {:?}: {}", other, e);
        std::process::exit(2)
    });
    let text = String::from_utf8_lossy(&out.stdout).to_string();
    let line = text.lines().find(|l| l.starts_with("HALF-REPORT ")).unwrap_or_else(|| {
        eprintln!("MACHINERY-ERROR {:?} produced no report: {}", other, String::from_utf8_lossy(&out.stderr));
        std::process::exit(2)
    });
    let j: Json = serde_json::from_str(&line["HALF-REPORT ".len()..]).unwrap();
    let st = Stats::from_json(&j);
    rep.section(if crate::FLAVOUR == "rustls" { "native-tls" } else { "rustls" }, st);
    rep.finish()
}
