//! The URL a client really contacts, observed on the wire: request target and Host header received by a loopback
//! peer, for every target URI shape x client configuration. Shared by C11 (one POST to the mapped URL, path and
//! query preserved) and C14 (host, path and query of the transport URL unchanged) - the mapping FUNCTION is checked
//! exhaustively in hcore; this closes the gap between that function and what `send()` does with it.

use crate::adapter::build_ipp;
use crate::clients::*;
use crate::peer::*;
use base64::Engine;
use std::sync::Arc;
use std::time::Duration;
use vmc::explore::par_range;
use vmc::r1::{self, Msg};
use vmc::report::{Ctx, Stats};
use vmc::{fnv, json, Json};

const SCHEMES: [&str; 2] = ["ipp", "http"];
const HOSTS: [&str; 2] = ["127.0.0.1", "localhost"];
const USERINFOS: [Option<&str>; 4] = [None, Some("u:p"), Some("joe@example.com:s3cret"), Some("u%40x")];
const PATHS: [&str; 9] = ["", "/", "/ipp/print", "/printers/a%20b", "/printers/jdoe@corp", "/a//b;c=d@e", "/@", "//ipp/print", "//"];
const QUERIES: [Option<&str>; 5] = [None, Some(""), Some("q=1&r=2"), Some("user=a@b"), Some("u:p@evil/x")];
/// 0 plain, 1 basic_auth, 2 custom header, 3 an Authorization header given as a custom header
const NCONFIG: u64 = 4;

fn config(i: u64) -> Config {
    let h = |v: &[(&str, &str)]| v.iter().map(|(a, b)| (a.to_string(), b.to_string())).collect::<Vec<_>>();
    match i {
        0 => Config::default(),
        1 => Config { basic: Some(("user2".into(), "pass:2".into())), ..Default::default() },
        2 => Config { headers: h(&[("X-One", "1")]), ..Default::default() },
        _ => Config { headers: h(&[("authorization", "Bearer abc.def")]), ..Default::default() },
    }
}

fn radices() -> [u64; 7] {
    [2, SCHEMES.len() as u64, HOSTS.len() as u64, USERINFOS.len() as u64, PATHS.len() as u64, QUERIES.len() as u64, NCONFIG]
}

fn request() -> Msg {
    let mut m = Msg::new(0x0101, 0x000b, 1);
    m.groups.push(r1::Group {
        tag: r1::TAG_OPERATION,
        attrs: vec![r1::Attr { name: b"attributes-charset".to_vec(), values: vec![r1::Val::Str(r1::T_CHARSET, b"utf-8".to_vec())] }],
    });
    m
}

fn response() -> Vec<u8> {
    let mut m = Msg::new(0x0101, 0, 1);
    m.groups.push(r1::Group { tag: r1::TAG_OPERATION, attrs: vec![] });
    r1::encode(&m)
}

pub fn case_json(t: &[u64]) -> Json {
    let cfg_name = ["plain", "basic_auth", "custom-header", "authorization-as-custom-header"][t[6] as usize];
    json!({"wire": true, "idx": t, "client": if t[0] == 0 { "blocking" } else { "async" }, "scheme": SCHEMES[t[1] as usize], "host": HOSTS[t[2] as usize],
           "userinfo": USERINFOS[t[3] as usize], "path": PATHS[t[4] as usize], "query": QUERIES[t[5] as usize],
           "config": cfg_name})
}

pub fn run_one(t: &[u64], rt: &tokio::runtime::Runtime, st: &mut Stats) {
    st.evaluations += 1;
    st.traces += 1;
    st.transitions += 1;
    let kind = if t[0] == 0 { ClientKind::Blocking } else { ClientKind::Async };
    let (scheme, host, ui, path, query) = (SCHEMES[t[1] as usize], HOSTS[t[2] as usize], USERINFOS[t[3] as usize], PATHS[t[4] as usize], QUERIES[t[5] as usize]);
    let cfg = config(t[6]);
    let case = case_json(t);
    let key = fnv(case.to_string().as_bytes());
    st.states.insert(key);
    if ui.is_some() || query.is_some() || t[6] != 0 {
        st.nontrivial.insert(key);
    }
    let l = Arc::new(Listener::bind());
    let port = l.port;
    let l2 = l.clone();
    let body = response();
    let done = Arc::new(std::sync::atomic::AtomicBool::new(false));
    let done2 = done.clone();
    let server = std::thread::spawn(move || {
        let first = l2.accept_until(Duration::from_secs(10), &done2).map(|s| serve_plain(s, &Script::ok(body)));
        let mut extra = 0usize;
        if first.is_some() {
            while let Some(s) = l2.accept_until(Duration::from_secs(60), &done2) {
                extra += 1;
                drop(s);
            }
        }
        (first, extra)
    });
    let mut uri = format!("{}://", scheme);
    if let Some(u) = ui {
        uri.push_str(u);
        uri.push('@');
    }
    uri.push_str(&format!("{}:{}{}", host, port, path));
    if let Some(q) = query {
        uri.push('?');
        uri.push_str(q);
    }
    if uri.parse::<http::Uri>().is_err() {
        st.outcome("uri-not-accepted-by-the-uri-type");
        done.store(true, std::sync::atomic::Ordering::SeqCst);
        let _ = server.join();
        return;
    }
    let result = send(kind, rt, &uri, &cfg, build_ipp(&request()));
    done.store(true, std::sync::atomic::Ordering::SeqCst);
    let (ex, extra_seen) = server.join().unwrap_or((None, 0));
    let extra = extra_seen + l.pending();
    let who = kind.name();
    let want_target = format!("{}{}", if path.is_empty() { "/" } else { path }, query.map(|q| format!("?{}", q)).unwrap_or_default());
    let want_host = format!("{}:{}", host, port);
    let mut bad: Option<(String, String)> = None;
    match &ex {
        None => bad = Some((format!("{}:nothing-arrived", who), format!("no connection reached {} for target {} (send: {:?})", want_host, uri, result.as_ref().map(|_| "ok").map_err(|e| &e[..e.len().min(160)])))),
        Some(ex) => {
            let mut parts = ex.request_line.split(' ');
            let (method, target) = (parts.next().unwrap_or(""), parts.next().unwrap_or(""));
            if let Some(e) = &ex.error {
                bad = Some((format!("{}:request-incomplete", who), e.clone()));
            } else if method != "POST" {
                bad = Some((format!("{}:method", who), format!("request line {:?}", ex.request_line)));
            } else if target != want_target && !(query == Some("") && target == want_target.trim_end_matches('?')) {
                // (an EMPTY query may be sent with or without its '?': both name the same resource for every server)
                bad = Some((format!("{}:request-target", who), format!("target {} was requested as {:?}, expected {:?}", uri, target, want_target)));
            } else if ex.header("host").map(|h| h.eq_ignore_ascii_case(&want_host)) != Some(true) {
                bad = Some((format!("{}:host-header", who), format!("target {}: Host {:?}, expected {:?}", uri, ex.header("host"), want_host)));
            } else if extra > 0 {
                bad = Some((format!("{}:more-than-one-connection", who), format!("target {}: {} further connection(s)", uri, extra)));
            } else if t[6] == 1 && ui.is_none() {
                let want = format!("Basic {}", base64::engine::general_purpose::STANDARD.encode("user2:pass:2"));
                if !ex.headers_named("authorization").iter().any(|x| *x == want) {
                    bad = Some((format!("{}:authorization", who), format!("target {}: authorization {:?}, expected {:?}", uri, ex.headers_named("authorization"), want)));
                }
            } else if t[6] == 3 && ui.is_none() && !ex.headers_named("authorization").iter().any(|x| *x == "Bearer abc.def") {
                bad = Some((format!("{}:custom-header-missing", who), format!("target {}: authorization {:?}", uri, ex.headers_named("authorization"))));
            }
            if bad.is_none() && result.is_err() {
                bad = Some((format!("{}:send-failed", who), format!("target {}: the peer answered but send() returned {:?}", uri, result.as_ref().err().map(|e| &e[..e.len().min(160)]))));
            }
        }
    }
    match bad {
        None => st.outcome("contacted-as-mapped"),
        Some((c, d)) => {
            st.outcome("contacted-differently");
            st.violate(c, d, case.clone());
        }
    }
    st.sample(2, || case.clone());
}

pub fn run_all(ctx: &Ctx) -> Stats {
    let rad = radices();
    let total = vmc::explore::product(&rad);
    let mut out = Stats::new();
    for p in par_range(ctx.threads.min(8), total, 8, || (Stats::new(), runtime()), |acc, idx| {
        let t = vmc::explore::unrank(idx, &rad);
        run_one(&t, &acc.1, &mut acc.0);
    }) {
        out.merge(p.0);
    }
    out
}

/// `hnet-native C14 --wire [--replay F]`: prints one line `WIRE-REPORT <stats json>` for hcore to absorb
pub fn run_child(ctx: &Ctx) -> ! {
    let st = if let Some(p) = &ctx.replay {
        let (_, j) = vmc::report::load_replay(p);
        let t: Vec<u64> = j["idx"].as_array().map(|a| a.iter().map(|v| v.as_u64().unwrap_or(0)).collect()).unwrap_or_default();
        let mut st = Stats::new();
        if t.len() == 7 {
            run_one(&t, &runtime(), &mut st);
        }
        st
    } else {
        run_all(ctx)
    };
    println!("WIRE-REPORT {}", st.to_json());
    std::process::exit(0)
}
