//! C18 — `ipputil print` end to end: the real binary (built from /repo's working tree) against
//! scripted loopback printers.

use crate::peer::*;
use std::io::Write;
use std::process::{Command, Stdio};
use std::sync::atomic::{AtomicBool, Ordering::SeqCst};
use std::sync::{Arc, Mutex};
use std::time::{Duration, Instant};
use vmc::explore::par_range;
use vmc::r1::{self, Msg, Val};
use vmc::report::{Ctx, Report, Stats, Tier};
use vmc::{fnv, hex, json, Json};

const OPTIONS: [&str; 12] = ["a=true", "a=false", "n=0", "n=-1", "n=2147483647", "n=2147483648", "x=1.5", "k=v=w", "e=", "t=True", "page-ranges=1-2,5-6", "n=1,2"];

/// typing witnesses used one at a time (and next to one other option): zero-padded and negative decimals, the
/// 32-bit limits and their neighbours, texts that merely look numeric or boolean
const TYPING: [&str; 24] = [
    "n=007",
    "n=000000000002",
    "n=-00000000017",
    "n=00000000002147483647",
    "n=-2147483648",
    "n=-2147483649",
    "n=-000002147483648",
    "n=99999999999999999999",
    "n=-0",
    "n=0x10",
    "n=1e3",
    "n=5 ",
    "n=\u{661}\u{662}",
    "n=1_000",
    "n=-",
    "n=--1",
    "n=1-2",
    "n=12a",
    "b=TRUE",
    "b=yes",
    "b=true ",
    "b=truefalse",
    "b=1",
    "b=0",
];

/// the typing rule of the statement, written without the standard library's integer parser: "true"/"false" ->
/// boolean; an optional '-' followed by one or more ASCII digits whose value fits 32 bits -> integer; else keyword
fn typed(text: &str) -> Val {
    match text {
        "true" => Val::Bool(true),
        "false" => Val::Bool(false),
        t => {
            let (neg, digits) = match t.strip_prefix('-') {
                Some(d) => (true, d),
                None => (false, t),
            };
            if !digits.is_empty() && digits.bytes().all(|b| b.is_ascii_digit()) {
                let mut v: i128 = 0;
                for b in digits.bytes() {
                    v = (v * 10 + (b - b'0') as i128).min(1 << 40);
                }
                if neg {
                    v = -v;
                }
                if v >= i32::MIN as i128 && v <= i32::MAX as i128 {
                    return Val::Int(v as i32);
                }
            }
            Val::Str(r1::T_KEYWORD, t.as_bytes().to_vec())
        }
    }
}

fn option_text(i: usize) -> &'static str {
    if i < OPTIONS.len() {
        OPTIONS[i]
    } else {
        TYPING[i - OPTIONS.len()]
    }
}

#[derive(Clone, Copy, Debug, PartialEq)]
enum StateAnswer {
    Idle,
    ProcessingInformational,
    Stopped,
    BlockingScalar(usize),
    BlockingInSet(usize),
    IppStatus0503,
    /// error statuses whose low byte is zero (an exit status derived from the code would wrap to 0)
    IppStatus0400,
    IppStatus0500,
    Http500,
}

#[derive(Clone, Copy, Debug, PartialEq)]
enum PrintAnswer {
    Ok0000,
    Ok0001,
    Err040a,
    Err0400,
    Err0500,
    Err0507,
    Http403,
    Cut,
    /// the connection that carries the Print-Job is RESET after the peer read 64 bytes of it / after the peer read all
    /// of it; every later connection is served normally (a printer waking up, a firewall dropping state)
    ResetEarly,
    ResetLate,
    /// any IPP status code
    Status(u16),
    /// successful answers (to the state query and to the Print-Job) whose Content-Type line is spelled differently
    ContentType(u8),
}

const BLOCKING3: [&str; 10] = [
    "media-jam",
    "toner-empty",
    "spool-area-full",
    "cover-open",
    "door-open",
    "input-tray-missing",
    "output-tray-missing",
    "marker-supply-empty",
    "paused",
    "shutdown",
];

fn state_answers() -> Vec<StateAnswer> {
    let mut v = vec![StateAnswer::Idle, StateAnswer::ProcessingInformational, StateAnswer::Stopped];
    for i in 0..BLOCKING3.len() {
        v.push(StateAnswer::BlockingScalar(i));
        v.push(StateAnswer::BlockingInSet(i));
    }
    v.push(StateAnswer::IppStatus0503);
    v.push(StateAnswer::IppStatus0400);
    v.push(StateAnswer::IppStatus0500);
    v.push(StateAnswer::Http500);
    v
}
const PRINT_ANSWERS: [PrintAnswer; 10] = [
    PrintAnswer::ResetEarly,
    PrintAnswer::ResetLate,
    PrintAnswer::Ok0000,
    PrintAnswer::Ok0001,
    PrintAnswer::Err040a,
    PrintAnswer::Err0400,
    PrintAnswer::Err0500,
    PrintAnswer::Err0507,
    PrintAnswer::Http403,
    PrintAnswer::Cut,
];

impl StateAnswer {
    fn ready(&self) -> bool {
        matches!(self, StateAnswer::Idle | StateAnswer::ProcessingInformational)
    }
    fn script(&self, id: u32) -> Script {
        let kw = |s: &str| Val::Str(r1::T_KEYWORD, s.as_bytes().to_vec());
        let (status, state, reasons): (u16, i32, Vec<Val>) = match self {
            StateAnswer::Idle => (0, 3, vec![kw("none")]),
            StateAnswer::ProcessingInformational => (1, 4, vec![kw("media-low"), kw("toner-low")]),
            StateAnswer::Stopped => (0, 5, vec![kw("none")]),
            StateAnswer::BlockingScalar(i) => (0, 3, vec![kw(BLOCKING3[*i])]),
            StateAnswer::BlockingInSet(i) => (0, 4, vec![kw("media-low"), kw(BLOCKING3[*i]), kw("none")]),
            StateAnswer::IppStatus0503 => (0x0503, 3, vec![kw("none")]),
            StateAnswer::IppStatus0400 => (0x0400, 3, vec![kw("none")]),
            StateAnswer::IppStatus0500 => (0x0500, 3, vec![kw("none")]),
            StateAnswer::Http500 => (0, 3, vec![kw("none")]),
        };
        let mut m = Msg::new(0x0101, status, id);
        m.groups.push(r1::Group {
            tag: r1::TAG_OPERATION,
            attrs: vec![r1::Attr { name: b"attributes-charset".to_vec(), values: vec![Val::Str(r1::T_CHARSET, b"utf-8".to_vec())] }],
        });
        m.groups.push(r1::Group {
            tag: r1::TAG_PRINTER,
            attrs: vec![
                r1::Attr { name: b"printer-state".to_vec(), values: vec![Val::Enum(state)] },
                r1::Attr { name: b"printer-state-reasons".to_vec(), values: reasons },
            ],
        });
        let mut s = Script::ok(r1::encode(&m));
        if *self == StateAnswer::Http500 {
            s.status = 500;
        }
        s
    }
}

impl PrintAnswer {
    fn success(&self) -> bool {
        matches!(self, PrintAnswer::Ok0000 | PrintAnswer::Ok0001 | PrintAnswer::Status(0..=2) | PrintAnswer::ContentType(_))
    }
    fn script(&self, id: u32) -> Script {
        let status = match self {
            PrintAnswer::Ok0000 => 0,
            PrintAnswer::Ok0001 => 1,
            PrintAnswer::Err040a => 0x040a,
            PrintAnswer::Err0400 => 0x0400,
            PrintAnswer::Err0500 => 0x0500,
            PrintAnswer::Err0507 => 0x0507,
            PrintAnswer::Status(c) => *c,
            _ => 0,
        };
        let mut m = Msg::new(0x0101, status, id);
        m.groups.push(r1::Group {
            tag: r1::TAG_OPERATION,
            attrs: vec![r1::Attr { name: b"attributes-charset".to_vec(), values: vec![Val::Str(r1::T_CHARSET, b"utf-8".to_vec())] }],
        });
        m.groups.push(r1::Group {
            tag: r1::TAG_JOB,
            attrs: vec![r1::Attr { name: b"job-id".to_vec(), values: vec![Val::Int(42)] }, r1::Attr { name: b"job-state".to_vec(), values: vec![Val::Enum(3)] }],
        });
        let body = r1::encode(&m);
        let mut s = Script::ok(body.clone());
        match self {
            PrintAnswer::ContentType(i) => s.content_type = CONTENT_TYPE_LINES[*i as usize],
            PrintAnswer::Http403 => s.status = 403,
            PrintAnswer::Cut => s.cut_after = Some(body.len() / 2),
            _ => {}
        }
        s
    }
}

#[derive(Clone, Debug)]
struct Case {
    stdin: bool,
    content: usize,
    job_name: Option<&'static str>,
    user: Option<&'static str>,
    options: Vec<usize>,
    no_check: bool,
    header: bool,
    state: StateAnswer,
    print: PrintAnswer,
}

fn contents(tier: Tier) -> Vec<Vec<u8>> {
    let mut pdf = b"%PDF".to_vec();
    pdf.extend((0u16..=255).map(|b| b as u8));
    let pat = |n: usize| (0..n).map(|i| (i * 31 + (i >> 8) * 7) as u8).collect::<Vec<u8>>();
    vec![vec![], vec![0x03], pdf, pat(8191), pat(8192), pat(8193), pat(tier.pick((1 << 20) + 1, (8 << 20) + 1))]
}

impl Case {
    fn to_json(&self) -> Json {
        json!({"input": if self.stdin { "stdin" } else { "file" }, "content": self.content, "job_name": self.job_name, "user": self.user,
               "options": self.options.iter().map(|i| option_text(*i)).collect::<Vec<_>>(), "no_check_state": self.no_check, "header": self.header,
               "state_answer": format!("{:?}", self.state), "print_answer": format!("{:?}", self.print)})
    }
}

struct Observed {
    exchanges: Vec<Exchange>,
    exit_code: Option<i32>,
    stderr: String,
}

fn run_util(c: &Case, bin: &std::path::Path, scratch: &std::path::Path, contents: &[Vec<u8>], uniq: u64) -> Result<(Observed, u16), String> {
    let l = Listener::bind();
    let port = l.port;
    let stop = Arc::new(AtomicBool::new(false));
    let stop2 = stop.clone();
    let log: Arc<Mutex<Vec<Exchange>>> = Arc::new(Mutex::new(vec![]));
    let log2 = log.clone();
    let (state, print) = (c.state, c.print);
    // the connection that is reset: the one carrying the Print-Job (the second one when the state check runs first)
    let reset_conn = if c.no_check { 0usize } else { 1 };
    let server = std::thread::spawn(move || {
        let t0 = Instant::now();
        let mut conn_no = 0usize;
        let mut reset_done = false;
        loop {
            if let Some(s) = l.accept(Duration::from_millis(10)) {
                let mut s = s;
                let reset_this = matches!(print, PrintAnswer::ResetEarly | PrintAnswer::ResetLate) && conn_no == reset_conn && !reset_done;
                conn_no += 1;
                if reset_this {
                    reset_done = true;
                    if print == PrintAnswer::ResetEarly {
                        read_some_then_reset(s, 64);
                    } else {
                        let _ = read_request(&mut s, Instant::now() + Duration::from_secs(30));
                        reset(s);
                    }
                    continue;
                }
                let ex = read_request(&mut s, Instant::now() + Duration::from_secs(30));
                let op = r1::decode(&ex.body).map(|m| (m.code, m.request_id)).unwrap_or((0xffff, 1));
                let mut script = if op.0 == 0x000b { state.script(op.1) } else { print.script(op.1) };
                if let PrintAnswer::ContentType(i) = print {
                    script.content_type = CONTENT_TYPE_LINES[i as usize];
                }
                if ex.error.is_none() {
                    let complete = write_response(&mut s, &script);
                    let _ = s.shutdown(if complete { std::net::Shutdown::Write } else { std::net::Shutdown::Both });
                }
                log2.lock().unwrap().push(ex);
            } else if stop2.load(SeqCst) || t0.elapsed() > Duration::from_secs(60) {
                return;
            }
        }
    });
    let uri = format!("ipp://127.0.0.1:{}/printers/x", port);
    let mut cmd = Command::new(bin);
    if c.header {
        cmd.arg("-H").arg("X-A=b");
    }
    cmd.arg("print");
    if c.no_check {
        cmd.arg("-n");
    }
    let file = scratch.join(format!("doc-{}-{}", std::process::id(), uniq));
    if !c.stdin {
        std::fs::write(&file, &contents[c.content]).map_err(|e| format!("cannot write scratch file: {}", e))?;
        cmd.arg("-f").arg(&file);
    }
    if let Some(j) = c.job_name {
        cmd.arg("-j").arg(j);
    }
    if let Some(u) = c.user {
        cmd.arg("-u").arg(u);
    }
    for o in &c.options {
        cmd.arg("-o").arg(option_text(*o));
    }
    cmd.arg(&uri);
    cmd.env_remove("http_proxy").env_remove("https_proxy").env_remove("HTTP_PROXY").env_remove("HTTPS_PROXY").env_remove("ALL_PROXY").env_remove("all_proxy");
    cmd.stdin(if c.stdin { Stdio::piped() } else { Stdio::null() }).stdout(Stdio::null()).stderr(Stdio::piped());
    let mut child = cmd.spawn().map_err(|e| format!("cannot start {:?}: {}", bin, e))?;
    if c.stdin {
        let mut si = child.stdin.take().unwrap();
        let data = contents[c.content].clone();
        std::thread::spawn(move || {
            let _ = si.write_all(&data);
        });
    }
    let t0 = Instant::now();
    let status = loop {
        match child.try_wait() {
            Ok(Some(s)) => break s,
            Ok(None) if t0.elapsed() > Duration::from_secs(60) => {
                let _ = child.kill();
                let _ = child.wait();
                stop.store(true, SeqCst);
                let _ = server.join();
                let _ = std::fs::remove_file(&file);
                return Err("ipputil did not exit within 60 s".into());
            }
            Ok(None) => std::thread::sleep(Duration::from_millis(1)),
            Err(e) => return Err(e.to_string()),
        }
    };
    let mut stderr = String::new();
    if let Some(mut e) = child.stderr.take() {
        let _ = std::io::Read::read_to_string(&mut e, &mut stderr);
    }
    stop.store(true, SeqCst);
    let _ = server.join();
    let _ = std::fs::remove_file(&file);
    let exchanges = std::mem::take(&mut *log.lock().unwrap());
    Ok((
        Observed {
            exchanges,
            exit_code: status.code(),
            stderr,
        },
        port,
    ))
}

fn judge(c: &Case, o: &Observed, port: u16, contents: &[Vec<u8>]) -> Result<(), (String, String)> {
    let fail = |k: &str, d: String| Err((k.to_string(), d));
    let ops: Vec<(u16, &Exchange, Option<Msg>)> = o.exchanges.iter().map(|e| {
        let m = r1::decode(&e.body).ok();
        (m.as_ref().map(|m| m.code).unwrap_or(0xffff), e, m)
    }).collect();
    for (_, e, m) in &ops {
        if let Some(err) = &e.error {
            return fail("request-incomplete", format!("peer could not read a request: {}", err));
        }
        if m.is_none() {
            return fail("request-malformed", format!("request body is not well-formed IPP: {}", hex(&e.body[..e.body.len().min(80)])));
        }
        if !e.request_line.starts_with("POST /printers/x ") {
            return fail("request-line", format!("request line {:?}", e.request_line));
        }
        if c.header && !e.headers_named("x-a").iter().any(|v| *v == "b") {
            return fail("custom-header-missing", format!("header X-A: b missing in {:?}", e.headers));
        }
    }
    let codes: Vec<u16> = ops.iter().map(|x| x.0).collect();
    let want_exit_ok;
    let mut idx = 0;
    if !c.no_check {
        if codes.first() != Some(&0x000b) {
            return fail("state-check-skipped", format!("first request has operation {:?}, expected Get-Printer-Attributes (0x000b); requests seen: {:04x?}", codes.first(), codes));
        }
        let gpa = ops[0].2.as_ref().unwrap();
        let pu = gpa.groups.first().and_then(|g| g.attrs.iter().find(|a| a.name == b"printer-uri")).map(|a| a.values.clone());
        if pu != Some(vec![Val::Str(r1::T_URI, format!("ipp://127.0.0.1:{}/printers/x", port).into_bytes())]) {
            return fail("state-check-target", format!("Get-Printer-Attributes printer-uri {:?}", pu.map(|v| v.iter().map(|x| x.to_json()).collect::<Vec<_>>())));
        }
        idx = 1;
        if !c.state.ready() {
            if codes.len() != 1 {
                return fail("submitted-to-unready-printer", format!("printer answered {:?} but further requests were sent: {:04x?}", c.state, codes));
            }
            if o.exit_code == Some(0) {
                return fail("exit-zero-on-failure", format!("printer answered {:?}, nothing submitted, but exit status is 0", c.state));
            }
            return Ok(());
        }
    }
    if matches!(c.print, PrintAnswer::ResetEarly | PrintAnswer::ResetLate) {
        // the connection carrying the job was reset (that exchange is not in the log). The tool may give up - then
        // nothing further may arrive and the exit status is non-zero - or submit again on a new connection - then that
        // must be ONE complete Print-Job with exactly the input as its document. Never exit 0 without such a job.
        let later: Vec<&(u16, &Exchange, Option<Msg>)> = ops.iter().skip(idx).collect();
        if later.len() > 1 {
            return fail("print-job-count", format!("{} requests after the reset: {:04x?}", later.len(), codes));
        }
        match later.first() {
            None => {
                if o.exit_code == Some(0) {
                    return fail("exit-zero-on-failure", "the Print-Job connection was reset, nothing else was submitted, but exit status is 0".into());
                }
                return Ok(());
            }
            Some((code, _, m)) => {
                if *code != 0x0002 {
                    return fail("print-job-count", format!("request {:04x} after the reset", code));
                }
                let pj = m.as_ref().unwrap();
                if pj.data != contents[c.content] {
                    return fail(
                        "document-differs",
                        format!("after the reset a Print-Job with a document of {} bytes was submitted; the input has {} bytes (exit status {:?})", pj.data.len(), contents[c.content].len(), o.exit_code),
                    );
                }
                return Ok(());
            }
        }
    }
    if codes.len() != idx + 1 || codes[idx] != 0x0002 {
        return fail("print-job-count", format!("expected exactly one Print-Job after {} state request(s); requests seen: {:04x?} (stderr: {})", idx, codes, o.stderr.trim()));
    }
    let pj = ops[idx].2.as_ref().unwrap();
    // expected Print-Job request
    let mut op: std::collections::BTreeMap<Vec<u8>, Vec<Val>> = Default::default();
    op.insert(b"attributes-charset".to_vec(), vec![Val::Str(r1::T_CHARSET, b"utf-8".to_vec())]);
    op.insert(b"attributes-natural-language".to_vec(), vec![Val::Str(r1::T_NATLANG, b"en".to_vec())]);
    op.insert(b"printer-uri".to_vec(), vec![Val::Str(r1::T_URI, format!("ipp://127.0.0.1:{}/printers/x", port).into_bytes())]);
    if let Some(j) = c.job_name {
        op.insert(b"job-name".to_vec(), vec![Val::Str(r1::T_NAME, j.as_bytes().to_vec())]);
    }
    if let Some(u) = c.user {
        op.insert(b"requesting-user-name".to_vec(), vec![Val::Str(r1::T_NAME, u.as_bytes().to_vec())]);
    }
    let mut groups = vec![(r1::TAG_OPERATION, op)];
    if !c.options.is_empty() {
        let mut job = std::collections::BTreeMap::new();
        for o in &c.options {
            let (k, v) = option_text(*o).split_once('=').unwrap();
            job.insert(k.as_bytes().to_vec(), vec![typed(v)]);
        }
        groups.push((r1::TAG_JOB, job));
    }
    let want = vmc::r1::CMsg {
        version: pj.version,
        code: 0x0002,
        request_id: pj.request_id,
        groups,
        data: contents[c.content].clone(),
    };
    if pj.version != 0x0101 || pj.request_id == 0 {
        return fail("print-job-header", format!("version {:#06x} request-id {}", pj.version, pj.request_id));
    }
    if let Some(d) = want.diff(&pj.canon()) {
        let cls = if want.data != pj.data { "document-differs" } else { "print-job-attributes" };
        return fail(cls, d);
    }
    want_exit_ok = c.print.success();
    match (want_exit_ok, o.exit_code) {
        (true, Some(0)) => Ok(()),
        (true, code) => fail("exit-nonzero-on-success", format!("every exchange succeeded but exit status is {:?} (stderr: {})", code, o.stderr.trim())),
        (false, Some(0)) => fail("exit-zero-on-failure", format!("Print-Job was answered with {:?} but exit status is 0", c.print)),
        (false, _) => Ok(()),
    }
}

/// Print-Job answered with every status code of a sweep: {0, 1, 2} must give exit 0; EVERY code of 0x0100..=0x03ff
/// (outside the successful class, none of them named by RFC 8011), every named error code, and a few far ones must
/// give a non-zero exit status. (0x0003..=0x00ff are left out: the statement does not settle them.)
/// spellings of the Content-Type line a printer may legitimately use
const CONTENT_TYPE_LINES: [Option<&str>; 5] = [
    Some("Content-Type: application/IPP"),
    Some("content-type: Application/Ipp"),
    Some("Content-Type: application/ipp; charset=utf-8"),
    Some("Content-Type:application/ipp"),
    Some("CONTENT-TYPE: application/ipp "),
];

fn status_sweep_codes() -> Vec<u16> {
    let mut v: Vec<u16> = vec![0, 1, 2];
    v.extend(0x0100..=0x03ffu16);
    v.extend(0x0400..=0x0420u16);
    v.extend(0x0500..=0x050cu16);
    v.extend([0x04ff, 0x05ff, 0x0600, 0x1000, 0x7fff, 0x8000, 0xff00, 0xffff]);
    v
}

fn base_case() -> Case {
    Case { stdin: false, content: 2, job_name: None, user: None, options: vec![], no_check: true, header: false, state: StateAnswer::Idle, print: PrintAnswer::Ok0000 }
}

fn tool_setup(ctx: &Ctx) -> (std::path::PathBuf, std::path::PathBuf, Vec<Vec<u8>>) {
    let bin = ctx.verif_dir.join("target/util/release/ipputil");
    if !bin.exists() {
        eprintln!("MACHINERY-ERROR {:?} not built", bin);
        std::process::exit(2);
    }
    let scratch = ctx.verif_dir.join(format!("target/c18-scratch-{}", std::process::id()));
    let _ = std::fs::create_dir_all(&scratch);
    (bin, scratch, contents(ctx.tier))
}

/// `hnet-native C16`: the success classification as the command-line tool reports it (its exit status), for hcore
/// to absorb into C16. Only `print`, whose exit status the statement of C18 pins.
pub fn run_status_sweep_child(ctx: &Ctx) -> ! {
    let (bin, scratch, cont) = tool_setup(ctx);
    let cases: Vec<Case> = status_sweep_codes().into_iter().map(|c| Case { print: PrintAnswer::Status(c), ..base_case() }).collect();
    let mut total = Stats::new();
    for p in par_range(ctx.threads, cases.len() as u64, 4, Stats::new, |st, i| {
        let c = &cases[i as usize];
        st.evaluations += 1;
        st.traces += 1;
        st.transitions += 1;
        let case = json!({"cli": true, "print_answer": format!("{:?}", c.print)});
        match run_util(c, &bin, &scratch, &cont, i) {
            Ok((o, port)) => {
                st.states.insert(i);
                st.nontrivial.insert(i);
                match judge(c, &o, port, &cont) {
                    Ok(()) => st.outcome(if o.exit_code == Some(0) { "cli-reports-success" } else { "cli-reports-failure" }),
                    Err((k, d)) => st.violate(format!("ipputil:{}", k), format!("{}: {}", case, d), case.clone()),
                }
            }
            Err(e) => {
                eprintln!("MACHINERY-ERROR {} for {}", e, case);
                std::process::exit(2);
            }
        }
    }) {
        total.merge(p);
    }
    let _ = std::fs::remove_dir_all(&scratch);
    println!("CLI-REPORT {}", total.to_json());
    std::process::exit(0)
}

pub fn run(ctx: &Ctx) -> ! {
    let mut rep = Report::new(
        ctx,
        "exploration",
        "the real ipputil binary (built from /repo's working tree) against scripted loopback printers. (A) every list of 0..2 (3) options from {a=true, a=false, n=0, n=-1, n=2147483647, n=2147483648, x=1.5, k=v=w, e=, t=True, page-ranges=1-2,5-6, n=1,2} (duplicate keys included), plus 24 typing witnesses used alone and next to one other option (zero-padded and negative decimals up to 20 digits, the 32-bit limits and their neighbours, -0, 0x10, 1e3, '5 ', non-ASCII digits, 1_000, TRUE, yes, 'true ', 1, 0; the expected type comes from a decimal rule written without the standard integer parser) x -j {absent, job, 'jöb name'} x -u {absent, u}; (B) content {0 B, 1 B, %PDF + every byte value, 8191/8192/8193 B, 1 MiB+1 (8 MiB+1)} x {-f file, stdin} x -H {none, X-A=b}; (C) printer scripts: Get-Printer-Attributes answered {idle/none, processing/informational, stopped, idle + each of the 10 blocking reasons as scalar and inside a set, IPP 0x0503 / 0x0400 / 0x0500, HTTP 500} with the state check on, and Print-Job answered {0x0000, 0x0001, 0x040a, 0x0400, 0x0500, 0x0507, a sweep of 825 status codes (0-2, EVERY code of 0x0100-0x03ff, all named client / server errors, far codes), HTTP 403, connection cut, five other legitimate spellings of the Content-Type line (also on the state answer), the Print-Job connection RESET after 64 bytes / after the whole request with every later connection served normally (x every content size x file / stdin)} with the check on (ready printer) and off. Oracle: request sequence seen by the peer (state query first unless -n; nothing submitted to a stopped / blocked / failing printer; exactly one Print-Job with document octets = input, job-name / requesting-user-name as name, options typed by their text, last wins per key, custom header present) and exit status 0 <=> every exchange succeeded with a successful IPP status. distinct = command line x printer script",
    );
    let bin = ctx.verif_dir.join("target/util/release/ipputil");
    if !bin.exists() {
        eprintln!("MACHINERY-ERROR {:?} not built", bin);
        std::process::exit(2);
    }
    let scratch = ctx.verif_dir.join("target/c18-scratch");
    let _ = std::fs::create_dir_all(&scratch);
    let cont = contents(ctx.tier);
    let mut cases: Vec<Case> = vec![];
    let base = Case {
        stdin: false,
        content: 2,
        job_name: None,
        user: None,
        options: vec![],
        no_check: true,
        header: false,
        state: StateAnswer::Idle,
        print: PrintAnswer::Ok0000,
    };
    // (A) option lists
    let maxo = ctx.tier.pick(2usize, 3usize);
    let mut lists: Vec<Vec<usize>> = vec![vec![]];
    let mut layer: Vec<Vec<usize>> = vec![vec![]];
    for _ in 0..maxo {
        let mut next = vec![];
        for l in &layer {
            for o in 0..OPTIONS.len() {
                let mut q = l.clone();
                q.push(o);
                next.push(q);
            }
        }
        lists.extend(next.iter().cloned());
        layer = next;
    }
    for t in 0..TYPING.len() {
        lists.push(vec![OPTIONS.len() + t]);
        lists.push(vec![0, OPTIONS.len() + t]);
        lists.push(vec![OPTIONS.len() + t, 2]);
    }
    for l in &lists {
        for j in [None, Some("job"), Some("jöb name")] {
            for u in [None, Some("u")] {
                if l.len() == 3 && (j.is_some() || u.is_some()) {
                    continue;
                }
                cases.push(Case { options: l.clone(), job_name: j, user: u, ..base.clone() });
            }
        }
    }
    // (B) contents
    for content in 0..cont.len() {
        for stdin in [false, true] {
            for header in [false, true] {
                cases.push(Case { content, stdin, header, job_name: Some("job"), ..base.clone() });
            }
        }
    }
    // (C) printer scripts
    for s in state_answers() {
        for header in [false, true] {
            cases.push(Case { no_check: false, state: s, header, ..base.clone() });
        }
    }
    for p in PRINT_ANSWERS {
        for no_check in [false, true] {
            cases.push(Case { no_check, print: p, user: Some("u"), options: vec![0, 2], ..base.clone() });
        }
    }
    // every status code of the sweep as the Print-Job answer
    for code in status_sweep_codes() {
        cases.push(Case { print: PrintAnswer::Status(code), ..base.clone() });
    }
    // printers that spell the Content-Type line differently (state query answered the same way)
    for i in 0..CONTENT_TYPE_LINES.len() as u8 {
        for no_check in [false, true] {
            cases.push(Case { print: PrintAnswer::ContentType(i), no_check, ..base.clone() });
        }
    }
    // resets with every content size, from a file and from standard input (a one-shot stream cannot be re-read)
    for p in [PrintAnswer::ResetEarly, PrintAnswer::ResetLate] {
        for content in 0..cont.len() {
            for stdin in [false, true] {
                cases.push(Case { no_check: true, print: p, content, stdin, ..base.clone() });
            }
        }
    }

    if let Some(p) = &ctx.replay {
        let (_, j) = vmc::report::load_replay(p);
        let idx = j["case_index"].as_u64().unwrap_or(0) as usize;
        let mut st = Stats::new();
        st.evaluations = 1;
        let c = &cases[idx.min(cases.len() - 1)];
        match run_util(c, &bin, &scratch, &cont, 0) {
            Ok((o, port)) => {
                println!("replay: exit={:?} requests={:?} stderr={}", o.exit_code, o.exchanges.iter().map(|e| e.request_line.clone()).collect::<Vec<_>>(), o.stderr.trim());
                if let Err((k, d)) = judge(c, &o, port, &cont) {
                    println!("replay: class={} detail={}", k, d);
                    st.violate(k, d, j.clone());
                }
            }
            Err(e) => {
                eprintln!("MACHINERY-ERROR {}", e);
                std::process::exit(2)
            }
        }
        rep.absorb(st);
        rep.finish();
    }

    for p in par_range(ctx.threads, cases.len() as u64, 1, Stats::new, |st, i| {
        let c = &cases[i as usize];
        st.evaluations += 1;
        st.traces += 1;
        let mut case = c.to_json();
        case["case_index"] = json!(i);
        match run_util(c, &bin, &scratch, &cont, i) {
            Ok((o, port)) => {
                st.transitions += o.exchanges.len() as u64;
                st.states.insert(fnv(c.to_json().to_string().as_bytes()));
                st.nontrivial.insert(fnv(c.to_json().to_string().as_bytes()));
                match judge(c, &o, port, &cont) {
                    Ok(()) => st.outcome(match (o.exit_code == Some(0), o.exchanges.len()) {
                        (true, _) => "printed-exit-0",
                        (false, 1) if !c.no_check && !c.state.ready() => "refused-exit-nonzero",
                        (false, _) => "failed-exit-nonzero",
                    }),
                    Err((k, d)) => {
                        st.outcome("wrong");
                        st.violate(k, format!("{}: {}", c.to_json(), d), case);
                    }
                }
                st.sample(2, || json!({"case": c.to_json(), "exit": o.exit_code, "requests": o.exchanges.iter().map(|e| e.request_line.clone()).collect::<Vec<_>>()}));
            }
            Err(e) => {
                eprintln!("MACHINERY-ERROR {} for {}", e, c.to_json());
                std::process::exit(2);
            }
        }
    }) {
        rep.absorb(p);
    }
    let _ = std::fs::remove_dir_all(&scratch);
    rep.set("cases", json!(cases.len()));
    rep.finish()
}
