//! Certificate factory: everything is minted at run time relative to the current clock (no expiry
//! time-bomb in committed fixtures), with the `openssl` crate that is already in the dependency
//! graph through native-tls.

use openssl::asn1::{Asn1Integer, Asn1Time};
use openssl::bn::{BigNum, MsbOption};
use openssl::ec::{EcGroup, EcKey};
use openssl::hash::MessageDigest;
use openssl::nid::Nid;
use openssl::pkey::{PKey, Private};
use openssl::x509::extension::{BasicConstraints, ExtendedKeyUsage, KeyUsage, SubjectAlternativeName};
use openssl::x509::{X509NameBuilder, X509};

pub struct Identity {
    pub key: PKey<Private>,
    pub cert: X509,
}

fn key() -> PKey<Private> {
    let group = EcGroup::from_curve_name(Nid::X9_62_PRIME256V1).unwrap();
    PKey::from_ec_key(EcKey::generate(&group).unwrap()).unwrap()
}

fn now() -> i64 {
    std::time::SystemTime::now().duration_since(std::time::UNIX_EPOCH).unwrap().as_secs() as i64
}

const DAY: i64 = 86_400;

fn build(cn: &str, san: Option<&str>, ca: bool, not_before: i64, not_after: i64, issuer: Option<&Identity>) -> Identity {
    let k = key();
    let mut name = X509NameBuilder::new().unwrap();
    name.append_entry_by_text("O", "vmc verification harness").unwrap();
    name.append_entry_by_text("CN", cn).unwrap();
    let name = name.build();
    let mut b = X509::builder().unwrap();
    b.set_version(2).unwrap();
    let mut serial = BigNum::new().unwrap();
    serial.rand(100, MsbOption::MAYBE_ZERO, false).unwrap();
    let serial: Asn1Integer = serial.to_asn1_integer().unwrap();
    b.set_serial_number(&serial).unwrap();
    b.set_subject_name(&name).unwrap();
    match issuer {
        Some(i) => b.set_issuer_name(i.cert.subject_name()).unwrap(),
        None => b.set_issuer_name(&name).unwrap(),
    }
    b.set_pubkey(&k).unwrap();
    b.set_not_before(&Asn1Time::from_unix(not_before).unwrap()).unwrap();
    b.set_not_after(&Asn1Time::from_unix(not_after).unwrap()).unwrap();
    if ca {
        b.append_extension(BasicConstraints::new().critical().ca().build().unwrap()).unwrap();
        b.append_extension(KeyUsage::new().critical().key_cert_sign().crl_sign().build().unwrap()).unwrap();
    } else {
        b.append_extension(BasicConstraints::new().build().unwrap()).unwrap();
        b.append_extension(KeyUsage::new().critical().digital_signature().key_encipherment().build().unwrap()).unwrap();
        b.append_extension(ExtendedKeyUsage::new().server_auth().build().unwrap()).unwrap();
    }
    if let Some(s) = san {
        let ext = {
            let ctx = b.x509v3_context(issuer.map(|i| i.cert.as_ref()), None);
            match s.strip_prefix("ip:") {
                Some(ip) => SubjectAlternativeName::new().ip(ip).build(&ctx).unwrap(),
                None => SubjectAlternativeName::new().dns(s).build(&ctx).unwrap(),
            }
        };
        b.append_extension(ext).unwrap();
    }
    match issuer {
        Some(i) => b.sign(&i.key, MessageDigest::sha256()).unwrap(),
        None => b.sign(&k, MessageDigest::sha256()).unwrap(),
    }
    Identity { key: k, cert: b.build() }
}

/// A second certificate for the SAME trust anchor (same subject, same key, self-signed) whose DER encoding ends in
/// an ASCII white-space octet (the last octet of an ECDSA signature is uniformly distributed; ~51 attempts on
/// average). DER is binary: anything that treats a root as text (trim, lines, from_utf8) mangles exactly this one.
pub fn same_anchor_der_ending_in_whitespace(ca: &Identity) -> Vec<u8> {
    let t = now();
    for _ in 0..100_000 {
        let mut b = X509::builder().unwrap();
        b.set_version(2).unwrap();
        let mut serial = BigNum::new().unwrap();
        serial.rand(100, MsbOption::MAYBE_ZERO, false).unwrap();
        b.set_serial_number(&serial.to_asn1_integer().unwrap()).unwrap();
        b.set_subject_name(ca.cert.subject_name()).unwrap();
        b.set_issuer_name(ca.cert.subject_name()).unwrap();
        b.set_pubkey(&ca.key).unwrap();
        b.set_not_before(&Asn1Time::from_unix(t - DAY).unwrap()).unwrap();
        b.set_not_after(&Asn1Time::from_unix(t + 3650 * DAY).unwrap()).unwrap();
        b.append_extension(BasicConstraints::new().critical().ca().build().unwrap()).unwrap();
        b.append_extension(KeyUsage::new().critical().key_cert_sign().crl_sign().build().unwrap()).unwrap();
        b.sign(&ca.key, MessageDigest::sha256()).unwrap();
        let der = b.build().to_der().unwrap();
        if matches!(der.last(), Some(0x09 | 0x0a | 0x0c | 0x0d | 0x20)) {
            return der;
        }
    }
    eprintln!("MACHINERY-ERROR could not mint a DER certificate ending in white space");
    std::process::exit(2)
}

pub struct Pki {
    pub ca: Identity,
    /// same anchor as `ca`, DER ending in a white-space octet
    pub ca_der_ws: Vec<u8>,
    pub unrelated_ca: Identity,
    #[allow(dead_code)]
    pub hidden_ca: Identity,
    /// index = server certificate kind
    pub servers: Vec<(&'static str, Identity)>,
}

pub const SERVER_KINDS: [&str; 6] = ["valid", "wrong-host", "expired", "self-signed", "unknown-ca", "valid-for-ip-127.0.0.1"];

impl Pki {
    pub fn new() -> Pki {
        let t = now();
        let ca = build("vmc test CA", None, true, t - DAY, t + 3650 * DAY, None);
        let unrelated_ca = build("vmc unrelated CA", None, true, t - DAY, t + 3650 * DAY, None);
        let hidden_ca = build("vmc hidden CA", None, true, t - DAY, t + 3650 * DAY, None);
        let servers = vec![
            ("valid", build("localhost", Some("localhost"), false, t - DAY, t + 3650 * DAY, Some(&ca))),
            ("wrong-host", build("other.example", Some("other.example"), false, t - DAY, t + 3650 * DAY, Some(&ca))),
            ("expired", build("localhost", Some("localhost"), false, t - 10 * DAY, t - DAY, Some(&ca))),
            ("self-signed", build("localhost", Some("localhost"), false, t - DAY, t + 3650 * DAY, None)),
            ("unknown-ca", build("localhost", Some("localhost"), false, t - DAY, t + 3650 * DAY, Some(&hidden_ca))),
            ("valid-for-ip-127.0.0.1", build("127.0.0.1", Some("ip:127.0.0.1"), false, t - DAY, t + 3650 * DAY, Some(&ca))),
        ];
        let ca_der_ws = same_anchor_der_ending_in_whitespace(&ca);
        Pki {
            ca,
            ca_der_ws,
            unrelated_ca,
            hidden_ca,
            servers,
        }
    }
}
