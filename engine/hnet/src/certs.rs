//! Certificate factory: everything is minted at run time relative to the current clock (no expiry
//! time-bomb in committed fixtures), with the `openssl` crate that is already in the dependency
//! graph through native-tls.

use openssl::asn1::{Asn1Integer, Asn1Time};
use openssl::bn::{BigNum, MsbOption};
use openssl::ec::{EcGroup, EcKey};
use openssl::hash::MessageDigest;
use openssl::nid::Nid;
use openssl::pkey::{PKey, Private};
use openssl::x509::extension::{BasicConstraints, ExtendedKeyUsage, KeyUsage, SubjectAlternativeName};
use openssl::x509::{X509NameBuilder, X509};

pub struct Identity {
    pub key: PKey<Private>,
    pub cert: X509,
}

fn key() -> PKey<Private> {
    let group = EcGroup::from_curve_name(Nid::X9_62_PRIME256V1).unwrap();
    PKey::from_ec_key(EcKey::generate(&group).unwrap()).unwrap()
}

fn now() -> i64 {
    std::time::SystemTime::now().duration_since(std::time::UNIX_EPOCH).unwrap().as_secs() as i64
}

const DAY: i64 = 86_400;

fn build(cn: &str, san: Option<&str>, ca: bool, not_before: i64, not_after: i64, issuer: Option<&Identity>) -> Identity {
    let k = key();
    let mut name = X509NameBuilder::new().unwrap();
    name.append_entry_by_text("O", "vmc verification harness").unwrap();
    name.append_entry_by_text("CN", cn).unwrap();
    let name = name.build();
    let mut b = X509::builder().unwrap();
    b.set_version(2).unwrap();
    let mut serial = BigNum::new().unwrap();
    serial.rand(100, MsbOption::MAYBE_ZERO, false).unwrap();
    let serial: Asn1Integer = serial.to_asn1_integer().unwrap();
    b.set_serial_number(&serial).unwrap();
    b.set_subject_name(&name).unwrap();
    match issuer {
        Some(i) => b.set_issuer_name(i.cert.subject_name()).unwrap(),
        None => b.set_issuer_name(&name).unwrap(),
    }
    b.set_pubkey(&k).unwrap();
    b.set_not_before(&Asn1Time::from_unix(not_before).unwrap()).unwrap();
    b.set_not_after(&Asn1Time::from_unix(not_after).unwrap()).unwrap();
    if ca {
        b.append_extension(BasicConstraints::new().critical().ca().build().unwrap()).unwrap();
        b.append_extension(KeyUsage::new().critical().key_cert_sign().crl_sign().build().unwrap()).unwrap();
    } else {
        b.append_extension(BasicConstraints::new().build().unwrap()).unwrap();
        b.append_extension(KeyUsage::new().critical().digital_signature().key_encipherment().build().unwrap()).unwrap();
        b.append_extension(ExtendedKeyUsage::new().server_auth().build().unwrap()).unwrap();
    }
    if let Some(s) = san {
        let ext = {
            let ctx = b.x509v3_context(issuer.map(|i| i.cert.as_ref()), None);
            SubjectAlternativeName::new().dns(s).build(&ctx).unwrap()
        };
        b.append_extension(ext).unwrap();
    }
    match issuer {
        Some(i) => b.sign(&i.key, MessageDigest::sha256()).unwrap(),
        None => b.sign(&k, MessageDigest::sha256()).unwrap(),
    }
    Identity { key: k, cert: b.build() }
}

pub struct Pki {
    pub ca: Identity,
    pub unrelated_ca: Identity,
    #[allow(dead_code)]
    pub hidden_ca: Identity,
    /// index = server certificate kind
    pub servers: Vec<(&'static str, Identity)>,
}

pub const SERVER_KINDS: [&str; 5] = ["valid", "wrong-host", "expired", "self-signed", "unknown-ca"];

impl Pki {
    pub fn new() -> Pki {
        let t = now();
        let ca = build("vmc test CA", None, true, t - DAY, t + 3650 * DAY, None);
        let unrelated_ca = build("vmc unrelated CA", None, true, t - DAY, t + 3650 * DAY, None);
        let hidden_ca = build("vmc hidden CA", None, true, t - DAY, t + 3650 * DAY, None);
        let servers = vec![
            ("valid", build("localhost", Some("localhost"), false, t - DAY, t + 3650 * DAY, Some(&ca))),
            ("wrong-host", build("other.example", Some("other.example"), false, t - DAY, t + 3650 * DAY, Some(&ca))),
            ("expired", build("localhost", Some("localhost"), false, t - 10 * DAY, t - DAY, Some(&ca))),
            ("self-signed", build("localhost", Some("localhost"), false, t - DAY, t + 3650 * DAY, None)),
            ("unknown-ca", build("localhost", Some("localhost"), false, t - DAY, t + 3650 * DAY, Some(&hidden_ca))),
        ];
        Pki {
            ca,
            unrelated_ca,
            hidden_ca,
            servers,
        }
    }
}
