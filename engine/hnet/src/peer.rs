//! E5 — hand-written loopback HTTP/1.1 peer (optionally behind TLS) that records what the client
//! sent and answers from a script.

use std::io::{Read, Write};
use std::net::{TcpListener, TcpStream};
use std::time::{Duration, Instant};

#[derive(Clone, Debug, Default)]
pub struct Exchange {
    pub request_line: String,
    pub headers: Vec<(String, String)>,
    pub body: Vec<u8>,
    pub chunked: bool,
    /// bytes of application data received on this connection (after a TLS handshake, if any)
    pub app_bytes: usize,
    pub error: Option<String>,
}

impl Exchange {
    pub fn header(&self, name: &str) -> Option<&str> {
        self.headers.iter().find(|(k, _)| k.eq_ignore_ascii_case(name)).map(|(_, v)| v.as_str())
    }
    pub fn headers_named(&self, name: &str) -> Vec<&str> {
        self.headers.iter().filter(|(k, _)| k.eq_ignore_ascii_case(name)).map(|(_, v)| v.as_str()).collect()
    }
}

#[derive(Clone, Copy, Debug, PartialEq, Eq)]
pub enum Framing {
    ContentLength,
    Chunked,
    Close,
}

#[derive(Clone, Debug, PartialEq, Eq)]
pub enum Plan {
    OneWrite,
    PerByte,
    /// head+body written as two pieces, split after this many body bytes
    SplitBody(usize),
}

#[derive(Clone, Debug)]
pub struct Script {
    pub status: u16,
    pub framing: Framing,
    pub body: Vec<u8>,
    pub plan: Plan,
    /// close the connection after this many body bytes (the declared framing stays that of the full body)
    pub cut_after: Option<usize>,
    /// cut inside the HTTP head (after this many head bytes)
    pub cut_in_head: Option<usize>,
    pub stall_before_status: Option<Duration>,
    /// (after this many body bytes, stall)
    pub stall_mid: Option<(usize, Duration)>,
    /// slow but steady: the response goes out in pieces of this many bytes, each followed by this pause
    pub dribble: Option<(usize, Duration)>,
    /// the Content-Type header line of the response (None = application/ipp); "" = no Content-Type header at all
    pub content_type: Option<&'static str>,
}

impl Script {
    pub fn ok(body: Vec<u8>) -> Script {
        Script {
            status: 200,
            framing: Framing::ContentLength,
            body,
            plan: Plan::OneWrite,
            cut_after: None,
            cut_in_head: None,
            stall_before_status: None,
            stall_mid: None,
            dribble: None,
            content_type: None,
        }
    }
}

fn reason(status: u16) -> &'static str {
    match status {
        200 => "OK",
        400 => "Bad Request",
        401 => "Unauthorized",
        403 => "Forbidden",
        404 => "Not Found",
        426 => "Upgrade Required",
        500 => "Internal Server Error",
        503 => "Service Unavailable",
        _ => "Status",
    }
}

/// read one HTTP/1.1 request (head + content-length or chunked body)
pub fn read_request<S: Read>(s: &mut S, deadline: Instant) -> Exchange {
    let mut ex = Exchange::default();
    let mut buf: Vec<u8> = vec![];
    let mut tmp = [0u8; 16384];
    // head
    let head_end;
    loop {
        if let Some(p) = find(&buf, b"\r\n\r\n") {
            head_end = p + 4;
            break;
        }
        if Instant::now() > deadline {
            ex.error = Some("timeout reading request head".into());
            ex.app_bytes = buf.len();
            return ex;
        }
        match s.read(&mut tmp) {
            Ok(0) => {
                ex.error = Some(format!("connection closed after {} request bytes", buf.len()));
                ex.app_bytes = buf.len();
                return ex;
            }
            Ok(n) => buf.extend_from_slice(&tmp[..n]),
            Err(e) if e.kind() == std::io::ErrorKind::WouldBlock || e.kind() == std::io::ErrorKind::TimedOut || e.kind() == std::io::ErrorKind::Interrupted => continue,
            Err(e) => {
                ex.error = Some(format!("read error: {}", e));
                ex.app_bytes = buf.len();
                return ex;
            }
        }
    }
    let head = String::from_utf8_lossy(&buf[..head_end]).to_string();
    let mut lines = head.split("\r\n");
    ex.request_line = lines.next().unwrap_or("").to_string();
    for l in lines {
        if let Some((k, v)) = l.split_once(':') {
            ex.headers.push((k.trim().to_string(), v.trim().to_string()));
        }
    }
    let mut rest: Vec<u8> = buf[head_end..].to_vec();
    let mut total = buf.len();
    let mut more = |rest: &mut Vec<u8>, total: &mut usize| -> Result<bool, String> {
        loop {
            if Instant::now() > deadline {
                return Err("timeout reading request body".into());
            }
            match s.read(&mut tmp) {
                Ok(0) => return Ok(false),
                Ok(n) => {
                    rest.extend_from_slice(&tmp[..n]);
                    *total += n;
                    return Ok(true);
                }
                Err(e) if e.kind() == std::io::ErrorKind::WouldBlock || e.kind() == std::io::ErrorKind::TimedOut || e.kind() == std::io::ErrorKind::Interrupted => continue,
                Err(e) => return Err(format!("read error: {}", e)),
            }
        }
    };
    let te = ex.header("transfer-encoding").unwrap_or("").to_ascii_lowercase();
    if te.contains("chunked") {
        ex.chunked = true;
        let mut pos = 0usize;
        loop {
            // chunk-size line
            let line_end = loop {
                if let Some(p) = find(&rest[pos..], b"\r\n") {
                    break pos + p;
                }
                match more(&mut rest, &mut total) {
                    Ok(true) => {}
                    Ok(false) => {
                        ex.error = Some("connection closed inside chunked body".into());
                        ex.app_bytes = total;
                        return ex;
                    }
                    Err(e) => {
                        ex.error = Some(e);
                        ex.app_bytes = total;
                        return ex;
                    }
                }
            };
            let size_txt = String::from_utf8_lossy(&rest[pos..line_end]).to_string();
            let size = usize::from_str_radix(size_txt.split(';').next().unwrap_or("").trim(), 16).unwrap_or(usize::MAX);
            if size == usize::MAX {
                ex.error = Some(format!("bad chunk size {:?}", size_txt));
                ex.app_bytes = total;
                return ex;
            }
            pos = line_end + 2;
            while rest.len() < pos + size + 2 {
                match more(&mut rest, &mut total) {
                    Ok(true) => {}
                    Ok(false) => {
                        ex.error = Some("connection closed inside a chunk".into());
                        ex.app_bytes = total;
                        return ex;
                    }
                    Err(e) => {
                        ex.error = Some(e);
                        ex.app_bytes = total;
                        return ex;
                    }
                }
            }
            if size == 0 {
                break;
            }
            ex.body.extend_from_slice(&rest[pos..pos + size]);
            pos += size + 2;
        }
    } else if let Some(cl) = ex.header("content-length").and_then(|v| v.parse::<usize>().ok()) {
        while rest.len() < cl {
            match more(&mut rest, &mut total) {
                Ok(true) => {}
                Ok(false) => {
                    ex.error = Some("connection closed inside body".into());
                    break;
                }
                Err(e) => {
                    ex.error = Some(e);
                    break;
                }
            }
        }
        ex.body = rest[..cl.min(rest.len())].to_vec();
    }
    ex.app_bytes = total;
    ex
}

fn find(h: &[u8], n: &[u8]) -> Option<usize> {
    h.windows(n.len()).position(|w| w == n)
}

/// write the scripted response; returns false when the script cut the connection on purpose
pub fn write_response<S: Write>(s: &mut S, sc: &Script) -> bool {
    if let Some(d) = sc.stall_before_status {
        std::thread::sleep(d);
    }
    let mut head = format!("HTTP/1.1 {} {}\r\nServer: vmc-peer\r\n", sc.status, reason(sc.status));
    match sc.content_type {
        None => head.push_str("Content-Type: application/ipp\r\n"),
        Some("") => {}
        Some(ct) => head.push_str(&format!("{}\r\n", ct)),
    }
    match sc.framing {
        Framing::ContentLength => head.push_str(&format!("Content-Length: {}\r\n", sc.body.len())),
        Framing::Chunked => head.push_str("Transfer-Encoding: chunked\r\n"),
        Framing::Close => head.push_str("Connection: close\r\n"),
    }
    head.push_str("\r\n");
    let head = head.into_bytes();
    if let Some(k) = sc.cut_in_head {
        let _ = s.write_all(&head[..k.min(head.len())]);
        let _ = s.flush();
        return false;
    }
    // wire image of the body under the framing; `marks` maps body offsets to wire offsets
    let cut = sc.cut_after.unwrap_or(usize::MAX);
    let body_sent = &sc.body[..sc.body.len().min(cut)];
    let mut wire: Vec<u8> = vec![];
    let mut piece_ends: Vec<usize> = vec![]; // wire offsets at which a flush happens
    let push_body = |wire: &mut Vec<u8>, part: &[u8], declared: usize, last: bool| match sc.framing {
        Framing::Chunked => {
            if declared > 0 {
                wire.extend_from_slice(format!("{:x}\r\n", declared).as_bytes());
                wire.extend_from_slice(part);
                if part.len() == declared {
                    wire.extend_from_slice(b"\r\n");
                }
            }
            if last && part.len() == declared {
                wire.extend_from_slice(b"0\r\n\r\n");
            }
        }
        _ => wire.extend_from_slice(part),
    };
    let complete = body_sent.len() == sc.body.len();
    match &sc.plan {
        Plan::OneWrite => {
            wire.extend_from_slice(&head);
            // one chunk declaring the full body; a cut leaves it unfinished
            push_body(&mut wire, body_sent, sc.body.len(), true);
            piece_ends.push(wire.len());
        }
        Plan::PerByte => {
            wire.extend_from_slice(&head);
            push_body(&mut wire, body_sent, sc.body.len(), true);
            let start = 0;
            for i in start..wire.len() {
                piece_ends.push(i + 1);
            }
        }
        Plan::SplitBody(k) => {
            let k = (*k).min(body_sent.len());
            wire.extend_from_slice(&head);
            match sc.framing {
                Framing::Chunked => {
                    push_body(&mut wire, &body_sent[..k], k, false);
                    piece_ends.push(wire.len());
                    let rest_declared = sc.body.len() - k;
                    push_body(&mut wire, &body_sent[k..], rest_declared, true);
                    if rest_declared == 0 && complete {
                        // nothing left: terminator already written? (declared 0 writes only the terminator)
                    }
                }
                _ => {
                    wire.extend_from_slice(&body_sent[..k]);
                    piece_ends.push(wire.len());
                    wire.extend_from_slice(&body_sent[k..]);
                }
            }
            piece_ends.push(wire.len());
        }
    }
    if let Some((n, d)) = sc.dribble {
        for piece in wire.chunks(n.max(1)) {
            if s.write_all(piece).is_err() {
                return false;
            }
            let _ = s.flush();
            std::thread::sleep(d);
        }
        return complete;
    }
    // stall in the middle: translate the body offset into a wire offset (approximation: head + offset)
    let stall_at = sc.stall_mid.map(|(off, d)| (head.len() + off.min(body_sent.len()), d));
    let mut pos = 0;
    for end in piece_ends {
        if end <= pos {
            continue;
        }
        let mut seg_start = pos;
        if let Some((at, d)) = stall_at {
            if at > pos && at < end {
                if s.write_all(&wire[pos..at]).is_err() {
                    return false;
                }
                let _ = s.flush();
                std::thread::sleep(d);
                seg_start = at;
            }
        }
        if s.write_all(&wire[seg_start..end]).is_err() {
            return false;
        }
        let _ = s.flush();
        pos = end;
    }
    complete
}

pub struct Listener {
    pub listener: TcpListener,
    pub port: u16,
}

/// Listening sockets are POOLED and reused from exchange to exchange: every exchange on a listener of its own
/// would leave thousands of ephemeral ports in TIME_WAIT per run, and a few runs in a row exhaust the port range
/// (bind fails with EADDRINUSE). A pooled listener is drained of anything still queued before it is handed out.
static POOL: std::sync::Mutex<Vec<TcpListener>> = std::sync::Mutex::new(Vec::new());

fn drain(l: &TcpListener) {
    let _ = l.set_nonblocking(true);
    while let Ok((s, _)) = l.accept() {
        drop(s);
    }
}

impl Drop for Listener {
    fn drop(&mut self) {
        if let Ok(c) = self.listener.try_clone() {
            drain(&c);
            if let Ok(mut p) = POOL.lock() {
                if p.len() < 256 {
                    p.push(c);
                }
            }
        }
    }
}

impl Listener {
    pub fn bind() -> Listener {
        if let Some(l) = POOL.lock().ok().and_then(|mut p| p.pop()) {
            drain(&l);
            if let Ok(a) = l.local_addr() {
                return Listener { port: a.port(), listener: l };
            }
        }
        let listener = TcpListener::bind(("127.0.0.1", 0)).unwrap_or_else(|e| {
            eprintln!("MACHINERY-ERROR cannot bind a loopback listener: {}", e);
            std::process::exit(2)
        });
        let port = listener.local_addr().unwrap().port();
        Listener { listener, port }
    }

    /// accept one connection, waiting at most `wait`
    pub fn accept(&self, wait: Duration) -> Option<TcpStream> {
        self.listener.set_nonblocking(true).ok()?;
        let t0 = Instant::now();
        loop {
            match self.listener.accept() {
                Ok((s, _)) => {
                    let _ = s.set_nonblocking(false);
                    let _ = s.set_nodelay(true);
                    let _ = s.set_read_timeout(Some(Duration::from_millis(200)));
                    // a client that stops reading without closing must not block the peer forever
                    let _ = s.set_write_timeout(Some(Duration::from_secs(10)));
                    return Some(s);
                }
                Err(e) if e.kind() == std::io::ErrorKind::WouldBlock => {
                    if t0.elapsed() > wait {
                        return None;
                    }
                    std::thread::sleep(Duration::from_micros(200));
                }
                Err(_) => return None,
            }
        }
    }

    /// like `accept`, but gives up as soon as `client_done` is set and nothing is pending (the client returned
    /// without ever connecting): a failing client must not cost the full waiting time
    pub fn accept_until(&self, wait: Duration, client_done: &std::sync::atomic::AtomicBool) -> Option<TcpStream> {
        self.listener.set_nonblocking(true).ok()?;
        let t0 = Instant::now();
        loop {
            let was_done = client_done.load(std::sync::atomic::Ordering::SeqCst);
            match self.listener.accept() {
                Ok((s, _)) => {
                    let _ = s.set_nonblocking(false);
                    let _ = s.set_nodelay(true);
                    let _ = s.set_read_timeout(Some(Duration::from_millis(200)));
                    // a client that stops reading without closing must not block the peer forever
                    let _ = s.set_write_timeout(Some(Duration::from_secs(10)));
                    return Some(s);
                }
                Err(e) if e.kind() == std::io::ErrorKind::WouldBlock => {
                    if was_done || t0.elapsed() > wait {
                        return None;
                    }
                    std::thread::sleep(Duration::from_micros(200));
                }
                Err(_) => return None,
            }
        }
    }

    /// number of further connections already pending (non-blocking)
    pub fn pending(&self) -> usize {
        let _ = self.listener.set_nonblocking(true);
        let mut n = 0;
        while let Ok((s, _)) = self.listener.accept() {
            drop(s);
            n += 1;
        }
        n
    }
}

/// serve exactly one plain-HTTP exchange on an accepted stream
pub fn serve_plain(mut s: TcpStream, sc: &Script) -> Exchange {
    let ex = read_request(&mut s, Instant::now() + Duration::from_secs(20));
    if ex.error.is_none() {
        let complete = write_response(&mut s, sc);
        if !complete || sc.framing == Framing::Close {
            let _ = s.shutdown(std::net::Shutdown::Both);
        } else {
            // give the client the chance to read everything, then close
            let _ = s.shutdown(std::net::Shutdown::Write);
        }
    }
    ex
}


/// Drop a connection the hard way (TCP RST instead of FIN): SO_LINGER with a zero timeout, then close. What a
/// printer waking up from power save, a crashing server or a stateful firewall do to a connection.
pub fn reset(s: TcpStream) {
    use std::os::fd::AsRawFd;
    let l = libc::linger { l_onoff: 1, l_linger: 0 };
    unsafe {
        libc::setsockopt(s.as_raw_fd(), libc::SOL_SOCKET, libc::SO_LINGER, &l as *const _ as *const libc::c_void, std::mem::size_of::<libc::linger>() as libc::socklen_t);
    }
    drop(s);
}

/// read at most `n` bytes (or until nothing arrives for 300 ms), then reset the connection
pub fn read_some_then_reset(mut s: TcpStream, n: usize) -> usize {
    let _ = s.set_read_timeout(Some(Duration::from_millis(300)));
    let mut got = 0;
    let mut buf = vec![0u8; 4096];
    while got < n {
        let want = (n - got).min(buf.len());
        match s.read(&mut buf[..want]) {
            Ok(0) => break,
            Ok(k) => got += k,
            Err(_) => break,
        }
    }
    reset(s);
    got
}
