//! hnet — network-facing checks (C11 HTTP clients, C12 TLS matrix, C18 ipputil end to end).
//! Built twice: `hnet-native` (native-tls backends) and `hnet-rustls` (rustls backends).

#[allow(dead_code)]
#[path = "../../hcore/src/adapter.rs"]
mod adapter;
mod c11;
mod c12;
mod c18;
mod certs;
mod clients;
mod peer;
mod wireurl;

pub const FLAVOUR: &str = if cfg!(feature = "flavour_rustls") { "rustls" } else { "native-tls" };

fn main() {
    // never talk to a proxy, whatever the environment says
    for v in ["http_proxy", "https_proxy", "HTTP_PROXY", "HTTPS_PROXY", "all_proxy", "ALL_PROXY"] {
        std::env::remove_var(v);
    }
    std::env::set_var("NO_PROXY", "*");
    std::env::set_var("no_proxy", "*");
    let ctx = vmc::report::Ctx::from_args();
    // the process environment is part of the environment: whatever the library derives from it shows up as a
    // difference from what the arguments alone imply
    for (k, v) in [("USER", "vmc-env-user"), ("USERNAME", "vmc-env-username"), ("LOGNAME", "vmc-env-logname"), ("LANG", "tlh_QX.UTF-8"), ("LC_ALL", "tlh_QX.UTF-8"), ("LC_MESSAGES", "tlh_QX.UTF-8"), ("LANGUAGE", "tlh"), ("HOSTNAME", "vmc-env-host"), ("IPP_PORT", "1"), ("CUPS_SERVER", "vmc-env-cups")] {
        std::env::set_var(k, v);
    }
    vmc::install_watchdog(if ctx.tier == vmc::report::Tier::Thorough { 6 * 3600 } else { 45 * 60 }, format!("check {}", ctx.id));
    // an application with logging enabled: every log statement's arguments are evaluated (and discarded)
    vmc::install_logger(log::LevelFilter::Trace);
    // own the system trust store: an empty one. Loading the real bundle costs ~55 ms of CPU per client
    // construction (the library builds a fresh TLS connector per send) and contends badly across threads;
    // no property depends on system roots, and the test CA must never be trusted implicitly anyway.
    let empty = ctx.verif_dir.join("target/empty-trust-store");
    let _ = std::fs::create_dir_all(empty.join("dir"));
    let _ = std::fs::write(empty.join("bundle.pem"), b"");
    std::env::set_var("SSL_CERT_FILE", empty.join("bundle.pem"));
    std::env::set_var("SSL_CERT_DIR", empty.join("dir"));
    match ctx.id.as_str() {
        "C11" => c11::run(&ctx),
        "C12" => c12::run(&ctx),
        "C18" => c18::run(&ctx),
        "C14" => wireurl::run_child(&ctx),
        "C16" => c18::run_status_sweep_child(&ctx),
        other => {
            eprintln!("MACHINERY-ERROR unknown check {}", other);
            std::process::exit(2)
        }
    }
}
