//! Uniform driver for the two HTTP clients.

use crate::adapter::*;
use futures_util::io::AsyncReadExt;
use ipp::prelude::*;
use std::time::Duration;
use vmc::r1::CMsg;

#[derive(Clone, Debug, Default)]
pub struct Config {
    pub headers: Vec<(String, String)>,
    pub basic: Option<(String, String)>,
    pub timeout_ms: Option<u64>,
    pub ignore_tls: Option<bool>,
    /// further ignore_tls_errors() calls made on the same builder AFTER `ignore_tls` (the last call is the caller's word)
    pub ignore_tls_then: Vec<bool>,
    pub ca_certs: Vec<Vec<u8>>,
}

#[derive(Clone, Copy, Debug, PartialEq, Eq)]
pub enum ClientKind {
    Blocking,
    Async,
}

impl ClientKind {
    pub fn name(self) -> &'static str {
        match self {
            ClientKind::Blocking => "blocking",
            ClientKind::Async => "async",
        }
    }
}

pub fn blocking_client(uri: &str, cfg: &Config) -> IppClient {
    let mut b = IppClient::builder(uri.parse().expect("uri"));
    if let Some(f) = cfg.ignore_tls {
        b = b.ignore_tls_errors(f);
    }
    for f in &cfg.ignore_tls_then {
        b = b.ignore_tls_errors(*f);
    }
    for c in &cfg.ca_certs {
        b = b.ca_cert(c);
    }
    if let Some(t) = cfg.timeout_ms {
        b = b.request_timeout(Duration::from_millis(t));
    }
    for (k, v) in &cfg.headers {
        b = b.http_header(k, v);
    }
    if let Some((u, p)) = &cfg.basic {
        b = b.basic_auth(u, p);
    }
    b.build()
}

pub fn async_client(uri: &str, cfg: &Config) -> AsyncIppClient {
    let mut b = AsyncIppClient::builder(uri.parse().expect("uri"));
    if let Some(f) = cfg.ignore_tls {
        b = b.ignore_tls_errors(f);
    }
    for f in &cfg.ignore_tls_then {
        b = b.ignore_tls_errors(*f);
    }
    for c in &cfg.ca_certs {
        b = b.ca_cert(c);
    }
    if let Some(t) = cfg.timeout_ms {
        b = b.request_timeout(Duration::from_millis(t));
    }
    for (k, v) in &cfg.headers {
        b = b.http_header(k, v);
    }
    if let Some((u, p)) = &cfg.basic {
        b = b.basic_auth(u, p);
    }
    b.build()
}

pub fn finish_blocking(r: Result<IppRequestResponse, IppError>) -> Result<CMsg, String> {
    match r {
        Ok(resp) => {
            let h = resp.header().clone();
            let a = resp.attributes().clone();
            let payload = read_all(resp.into_payload()).map_err(|e| format!("payload: {}", e))?;
            cmsg_from_parts(&h, &a, payload).map_err(|e| format!("out-of-model: {}", e))
        }
        Err(e) => Err(format!("{:?}", e)),
    }
}

pub async fn finish_async(r: Result<IppRequestResponse, IppError>) -> Result<CMsg, String> {
    match r {
        Ok(resp) => {
            let h = resp.header().clone();
            let a = resp.attributes().clone();
            let mut payload = vec![];
            let mut p = resp.into_payload();
            p.read_to_end(&mut payload).await.map_err(|e| format!("payload: {}", e))?;
            cmsg_from_parts(&h, &a, payload).map_err(|e| format!("out-of-model: {}", e))
        }
        Err(e) => Err(format!("{:?}", e)),
    }
}

pub fn send(kind: ClientKind, rt: &tokio::runtime::Runtime, uri: &str, cfg: &Config, req: IppRequestResponse) -> Result<CMsg, String> {
    let r = std::panic::catch_unwind(std::panic::AssertUnwindSafe(|| match kind {
        ClientKind::Blocking => finish_blocking(blocking_client(uri, cfg).send(req)),
        ClientKind::Async => {
            let c = async_client(uri, cfg);
            rt.block_on(async move { finish_async(c.send(req).await).await })
        }
    }));
    match r {
        Ok(x) => x,
        Err(p) => Err(format!("PANIC: {}", panic_text(p))),
    }
}

pub fn runtime() -> tokio::runtime::Runtime {
    tokio::runtime::Builder::new_current_thread().enable_all().build().expect("tokio runtime")
}
