//! C11 — HTTP clients put the exact request on the wire and return the exact response; failures are
//! failures; concurrent sends each get their own response. Fault enumeration against the loopback peer.

use crate::adapter::*;
use crate::clients::*;
use crate::peer::*;
use base64::Engine;
use ipp::prelude::*;
use std::sync::Arc;
use std::time::{Duration, Instant};
use vmc::explore::par_range;
use vmc::gen::realistic;
use vmc::r1::{self, Msg};
use vmc::report::{Ctx, Report, Stats, Tier};
use vmc::{fnv, hex, json, Json};

// ------------------------------------------------------------------ domains

fn requests() -> Vec<Msg> {
    let mut v = vec![];
    for (n, mut m) in realistic() {
        if n == "print-job-request" {
            m.data.clear();
            v.push(m);
        }
    }
    let mut m = Msg::new(0x0200, 0x000b, 0x01020304);
    m.groups.push(r1::Group {
        tag: r1::TAG_OPERATION,
        attrs: vec![
            r1::Attr { name: b"attributes-charset".to_vec(), values: vec![r1::Val::Str(r1::T_CHARSET, b"utf-8".to_vec())] },
            r1::Attr { name: b"attributes-natural-language".to_vec(), values: vec![r1::Val::Str(r1::T_NATLANG, b"en".to_vec())] },
            r1::Attr { name: b"printer-uri".to_vec(), values: vec![r1::Val::Str(r1::T_URI, b"ipp://h/p".to_vec())] },
            r1::Attr {
                name: b"requested-attributes".to_vec(),
                values: vec![r1::Val::Str(r1::T_KEYWORD, b"printer-state".to_vec()), r1::Val::Str(r1::T_KEYWORD, b"printer-state-reasons".to_vec())],
            },
        ],
    });
    v.push(m);
    let mut m = Msg::new(0x0101, 0x4002, 1);
    m.groups.push(r1::Group { tag: r1::TAG_OPERATION, attrs: vec![] });
    v.push(m);
    v
}

fn responses() -> Vec<(String, Msg)> {
    let mut v: Vec<(String, Msg)> = realistic().into_iter().filter(|(n, _)| n.ends_with("response")).map(|(n, mut m)| {
        m.data.clear();
        (n, m)
    }).collect();
    let mut m = Msg::new(0x0101, 0, 9);
    m.groups.push(r1::Group { tag: r1::TAG_OPERATION, attrs: vec![] });
    v.push(("minimal-response".into(), m));
    v
}

fn payload(kind: usize, seed: u64) -> Vec<u8> {
    match kind {
        0 => vec![],
        1 => vec![0x03],
        2 | 4 => vmc::gen::payload_big(seed),
        _ => {
            let mut v = vmc::gen::payload_big(seed ^ 7);
            while v.len() < (3 << 20) {
                let l = v.len();
                v.extend_from_within(..l.min((3 << 20) - l));
            }
            v
        }
    }
}

fn configs() -> Vec<Config> {
    let h = |v: &[(&str, &str)]| v.iter().map(|(a, b)| (a.to_string(), b.to_string())).collect::<Vec<_>>();
    let mut out = vec![Config::default()];
    out.push(Config { headers: h(&[("X-One", "1")]), ..Default::default() });
    out.push(Config { headers: h(&[("X-One", "1"), ("x-two", "two words; q=1")]), ..Default::default() });
    out.push(Config { headers: h(&[("X-One", "1"), ("user-agent", "custom/1.0"), ("X-Three", "")]), ..Default::default() });
    for (u, p) in [("u", "p"), ("", ""), ("ü", "p:w"), ("a:b", "c")] {
        out.push(Config { basic: Some((u.to_string(), p.to_string())), headers: h(&[("X-One", "1")]), ..Default::default() });
    }
    out
}

const PATHS: [&str; 5] = ["/", "/printers/x", "/a%20b?q=1&r=2", "/printers/jdoe@corp", "/p?user=a@b"];
const SCHEMES: [&str; 2] = ["http", "ipp"];

/// source 0 = in-memory cursor, 1 = fragmenting blocking source (8191-byte reads), 2 = blocking source whose
/// read reports ErrorKind::Interrupted (EINTR, "retry me") before the first byte and twice in the middle
fn with_payload(m: &Msg, p: &[u8], source: u8) -> IppRequestResponse {
    let mut r = build_ipp(m);
    if !p.is_empty() {
        match source {
            0 => *r.payload_mut() = IppPayload::new(std::io::Cursor::new(p.to_vec())),
            1 => {
                let mon = vmc::env::Monitor::new();
                let n = p.len();
                let script = (0..(n / 8191 + 1)).map(|_| vmc::env::Step::Chunk(8191)).collect();
                *r.payload_mut() = IppPayload::new(vmc::env::ScriptSource::new(Arc::new(p.to_vec()), script, mon));
            }
            _ => {
                use vmc::env::Step;
                let mon = vmc::env::Monitor::new();
                let half = (p.len() / 2).max(1);
                let script = vec![Step::Interrupted, Step::Chunk(half), Step::Interrupted, Step::Interrupted, Step::Chunk(p.len())];
                *r.payload_mut() = IppPayload::new(vmc::env::ScriptSource::new(Arc::new(p.to_vec()), script, mon));
            }
        }
    }
    r
}

/// one exchange: the peer serves `script` on a fresh listener while the client sends `req`
fn exchange(kind: ClientKind, rt: &tokio::runtime::Runtime, scheme: &str, path: &str, cfg: &Config, req: IppRequestResponse, script: Script) -> (Result<vmc::r1::CMsg, String>, Option<Exchange>, usize, u16, Duration) {
    let l = Listener::bind();
    let port = l.port;
    let l = Arc::new(l);
    let l2 = l.clone();
    let done = Arc::new(std::sync::atomic::AtomicBool::new(false));
    let done2 = done.clone();
    let server = std::thread::spawn(move || {
        let first = l2.accept_until(Duration::from_secs(20), &done2).map(|s| serve_plain(s, &script));
        // the script is for ONE exchange; whatever else connects before the client has returned is counted and closed
        // at once (a client that tried again would otherwise wait for an answer nobody is going to give)
        let mut extra = 0usize;
        if first.is_some() {
            while let Some(s) = l2.accept_until(Duration::from_secs(60), &done2) {
                extra += 1;
                drop(s);
            }
        }
        (first, extra)
    });
    let uri = format!("{}://127.0.0.1:{}{}", scheme, port, path);
    let t0 = Instant::now();
    let result = send(kind, rt, &uri, cfg, req);
    let took = t0.elapsed();
    done.store(true, std::sync::atomic::Ordering::SeqCst);
    let (ex, extra_seen) = server.join().unwrap_or((None, 0));
    let extra = extra_seen + l.pending();
    (result, ex, extra, port, took)
}

fn check_request(ex: &Exchange, port: u16, path: &str, cfg: &Config, expect: &vmc::r1::CMsg) -> Result<(), (String, String)> {
    let fail = |c: &str, d: String| Err((c.to_string(), d));
    if let Some(e) = &ex.error {
        return fail("request-incomplete", format!("peer could not read a complete request: {}", e));
    }
    let mut parts = ex.request_line.split(' ');
    let (method, target) = (parts.next().unwrap_or(""), parts.next().unwrap_or(""));
    if method != "POST" {
        return fail("method", format!("request line {:?}", ex.request_line));
    }
    if target != path {
        return fail("target", format!("request target {:?} instead of {:?}", target, path));
    }
    match ex.header("content-type") {
        Some(v) if v.eq_ignore_ascii_case("application/ipp") => {}
        other => return fail("content-type", format!("content-type {:?}", other)),
    }
    if ex.headers_named("content-type").len() != 1 {
        return fail("content-type", "more than one content-type header".into());
    }
    match ex.header("host") {
        Some(h) if h == format!("127.0.0.1:{}", port) => {}
        other => return fail("host-header", format!("Host {:?} instead of 127.0.0.1:{}", other, port)),
    }
    for (k, v) in &cfg.headers {
        if !ex.headers_named(k).iter().any(|x| x == v) {
            return fail("custom-header-missing", format!("header {}: {:?} not on the wire (got {:?})", k, v, ex.headers_named(k)));
        }
    }
    if let Some((u, p)) = &cfg.basic {
        let want = format!("Basic {}", base64::engine::general_purpose::STANDARD.encode(format!("{}:{}", u, p)));
        if !ex.headers_named("authorization").iter().any(|x| *x == want) {
            return fail("authorization", format!("authorization {:?} instead of {:?}", ex.headers_named("authorization"), want));
        }
    } else if ex.header("authorization").is_some() {
        return fail("authorization", "authorization header without configured credentials".into());
    }
    let dec = match r1::decode(&ex.body) {
        Ok(d) => d,
        Err(e) => return fail("body-malformed", format!("body is not a well-formed IPP message: {} ({} bytes: {})", e.0, ex.body.len(), hex(&ex.body[..ex.body.len().min(64)]))),
    };
    if let Some(d) = expect.diff(&dec.canon()) {
        return fail("body-differs", format!("request body differs: {}", d));
    }
    Ok(())
}

pub fn run(ctx: &Ctx) -> ! {
    silence_panics();
    let mut rep = Report::new(
        ctx,
        "fault_enumeration",
        "both clients (blocking ureq; async reqwest on a tokio runtime) against a hand-written loopback HTTP/1.1 peer. Request side: requests x payload {none, 1 B, 70 000 B, 70 000 B from a blocking source that reports Interrupted three times (, 3 MiB from a fragmenting source)} x client configuration {none, 1-3 custom headers incl. user-agent override, basic auth with 4 credential shapes} x target path {/, /printers/x, /a%20b?q=1&r=2, /printers/jdoe@corp, /p?user=a@b} x scheme {http, ipp}; and target shapes {ipp, http} x host {127.0.0.1, localhost} x user-info(4) x path(7) x query(5) (with '@', ':' and '/' in path and query) x configuration {plain, basic_auth, custom header, Authorization header}: request target, Host, one connection -> exactly one connection, POST, exact target, Host, content-type, headers, Basic credentials, body = request + payload (decoded by R1). A request object serialised once (to_bytes), then changed (header fields, attributes, payload), then sent must go out in its current state. Response side: responses x trailing data {none, 3 B, 70 000 B} x framing {content-length, chunked, close-delimited} x write plan {one write, one byte per write, EVERY two-piece split}; five further spellings of the Content-Type line (other case of media type and header name, a parameter, no blank after the colon, a trailing blank) under each framing. Resets: the connection reset (RST) after 64 request bytes / after the whole request with later connections served normally - no second POST, and an error. Huge bodies: a response document and a request payload of 256 MiB + 4097 (1 GiB + 4097) bytes streamed from a pattern generator and verified on the fly, under each framing. Failures: every HTTP status 400-599 with no body, a successful IPP body, an IPP body carrying an error status, and the latter labelled text/html; connection cut after EVERY offset of header+attributes under each framing and inside the HTTP head; stalled server with and without request_timeout. History: two sequential sends through one client value with the first exchange ending in 8 different ways (ok, 500, 404 with IPP body, cut in attributes, cut in head, chunked, close-delimited, IPP error status): the second must be one fresh POST with its own response. Concurrency: N = 2, 3 (4) senders through one client, the peer collects all N requests and answers in EVERY one of the N! orders. distinct = exchange script; non-trivial = exchange with a fault, fragmentation or non-default configuration",
    );
    rep.assume("interleavings inside hyper / tokio / ureq are not under a controlled scheduler; send(&self) builds a fresh agent and connection per call, so the only cross-request channel is the peer's answer order, which is enumerated");
    rep.assume("verdicts depend only on outcome classes that are stable under TCP coalescing");
    let tier = ctx.tier;
    let seed = ctx.seed;
    let reqs = requests();
    let resps = responses();
    let cfgs = configs();
    let kinds = [ClientKind::Blocking, ClientKind::Async];
    if ctx.extra.iter().any(|a| a == "--probe") {
        for kind in kinds {
            for nthreads in [1usize, 4, 16] {
                let t0 = Instant::now();
                let c0 = cpu_time();
                std::thread::scope(|sc| {
                    for _ in 0..nthreads {
                        sc.spawn(|| {
                            let rt = runtime();
                            for _ in 0..20 {
                                let (r, _, _, _, _) = exchange(kind, &rt, "http", "/ipp", &Config::default(), build_ipp(&reqs[1]), Script::ok(r1::encode(&resps[0].1)));
                                assert!(r.is_ok());
                            }
                        });
                    }
                });
                println!("{} x{} threads: {:?} wall per exchange per thread, {:?} cpu per exchange", kind.name(), nthreads, t0.elapsed() / 20, (cpu_time() - c0) / (20 * nthreads as u32));
            }
        }
        std::process::exit(0);
    }

    // ---------------- (1) request side
    let radices = [2u64, reqs.len() as u64, 5u64, cfgs.len() as u64, PATHS.len() as u64, SCHEMES.len() as u64];
    let total = vmc::explore::product(&radices);
    let ok_body = r1::encode(&resps[0].1);
    let mut s = Stats::new();
    for p in par_range(ctx.threads, total, 4, || (Stats::new(), runtime()), |acc, idx| {
        let (st, rt) = acc;
        let t = vmc::explore::unrank(idx, &radices);
        let kind = kinds[t[0] as usize];
        let m = &reqs[t[1] as usize];
        let pay = payload(t[2] as usize, seed);
        if t[2] == 3 && (tier == Tier::Quick || t[3] > 1 || t[4] > 0 || t[5] > 0) {
            return; // the 3 MiB payload: thorough tier, two configurations only
        }
        if t[2] == 4 && (t[3] > 1 || t[4] > 0) {
            return; // the interrupting source: two configurations, both schemes
        }
        let cfg = &cfgs[t[3] as usize];
        let path = PATHS[t[4] as usize];
        let scheme = SCHEMES[t[5] as usize];
        st.evaluations += 1;
        st.traces += 1;
        let case = json!({"section": "request", "client": kind.name(), "request": t[1], "payload_kind": t[2], "config": t[3], "path": path, "scheme": scheme});
        let mut expect = m.canon();
        expect.data = pay.clone();
        let (result, ex, extra, port, _) = exchange(kind, rt, scheme, path, cfg, with_payload(m, &pay, match t[2] { 3 => 1, 4 => 2, _ => 0 }), Script::ok(ok_body.clone()));
        st.transitions += ex.as_ref().map(|e| e.app_bytes as u64).unwrap_or(0);
        st.states.insert(idx | 1 << 40);
        if t[2] > 0 || t[3] > 0 || t[4] > 0 {
            st.nontrivial.insert(idx | 1 << 40);
        }
        let verdict: Result<(), (String, String)> = (|| {
            let ex = ex.as_ref().ok_or_else(|| ("no-connection".to_string(), "the peer saw no connection".to_string()))?;
            if extra != 0 {
                return Err(("extra-connections".into(), format!("{} further connection(s) were opened", extra)));
            }
            check_request(ex, port, path, cfg, &expect)?;
            match &result {
                Ok(got) => {
                    if let Some(d) = resps[0].1.canon().diff(got) {
                        return Err(("response-differs".into(), d));
                    }
                }
                Err(e) => return Err(("send-failed".into(), format!("send() failed on a clean exchange: {}", e))),
            }
            Ok(())
        })();
        match verdict {
            Ok(()) => st.outcome("request-exact"),
            Err((c, d)) => {
                st.outcome("request-wrong");
                st.violate(format!("{}:{}", kind.name(), c), format!("{}: {}", case, d), case.clone());
            }
        }
        st.sample(2, || json!({"case": case, "request_line": ex.as_ref().map(|e| e.request_line.clone()), "headers": ex.as_ref().map(|e| e.headers.clone())}));
    }) {
        s.merge(p.0);
    }
    rep.section("request-side", s);
    eprintln!("  elapsed {:?}", rep.start.elapsed());

    // ---------------- (1a) the URL really contacted, for every target shape x client configuration
    let w = crate::wireurl::run_all(ctx);
    rep.section("target-and-host-on-the-wire", w);
    eprintln!("  elapsed {:?}", rep.start.elapsed());

    // ---------------- (1c) a request object that was serialised once, then changed, then sent
    let mut s = Stats::new();
    {
        let steps: [&str; 5] = ["header.request_id", "header.version", "header.operation", "add attribute", "set payload"];
        let mut cases: Vec<(ClientKind, usize)> = vec![];
        for kind in kinds {
            for i in 0..steps.len() {
                cases.push((kind, i));
            }
        }
        for p in par_range(ctx.threads, cases.len() as u64, 1, || (Stats::new(), runtime()), |acc, i| {
            let (st, rt) = acc;
            let (kind, step) = cases[i as usize];
            let case = json!({"section": "encode-mutate-send", "client": kind.name(), "mutation_after_to_bytes": steps[step]});
            st.evaluations += 1;
            st.traces += 1;
            st.states.insert(fnv(case.to_string().as_bytes()) | 7 << 40);
            st.nontrivial.insert(fnv(case.to_string().as_bytes()));
            // expected: the same mutations on a fresh model, never serialised before
            let mut m = reqs[1].clone();
            let mut req = build_ipp(&m);
            let _ = req.to_bytes();
            let mut pay: Vec<u8> = vec![];
            match step {
                0 => {
                    req.header_mut().request_id = 0x0a0b0c0d;
                    m.request_id = 0x0a0b0c0d;
                }
                1 => {
                    req.header_mut().version = IppVersion(0x0202);
                    m.version = 0x0202;
                }
                2 => {
                    req.header_mut().operation_or_status = 0x4002;
                    m.code = 0x4002;
                }
                3 => {
                    req.attributes_mut().add(DelimiterTag::JobAttributes, IppAttribute::new("copies", IppValue::Integer(3)));
                    m.groups.push(r1::Group { tag: r1::TAG_JOB, attrs: vec![r1::Attr { name: b"copies".to_vec(), values: vec![r1::Val::Int(3)] }] });
                }
                _ => {
                    pay = b"late-payload".to_vec();
                    *req.payload_mut() = IppPayload::new(std::io::Cursor::new(pay.clone()));
                }
            }
            let mut expect = m.canon();
            expect.data = pay;
            let (result, ex, _extra, _port, _) = exchange(kind, rt, "http", "/ipp", &Config::default(), req, Script::ok(ok_body.clone()));
            let verdict: Result<(), String> = (|| {
                let ex = ex.as_ref().ok_or("no connection")?;
                let dec = r1::decode(&ex.body).map_err(|e| format!("body malformed: {}", e.0))?;
                if let Some(d) = expect.diff(&dec.canon()) {
                    return Err(format!("the request on the wire is not the request as it was when send() was called: {}", d));
                }
                result.as_ref().map_err(|e| format!("send failed: {}", &e[..e.len().min(160)]))?;
                Ok(())
            })();
            match verdict {
                Ok(()) => st.outcome("current-state-sent"),
                Err(d) => {
                    st.outcome("stale-state-sent");
                    st.violate(format!("{}:stale-request-after-{}", kind.name(), steps[step].replace(' ', "-")), format!("{}: {}", case, d), case.clone());
                }
            }
            st.sample(1, || case.clone());
        }) {
            s.merge(p.0);
        }
    }
    rep.section("encode-mutate-send", s);

    // ---------------- (2) response side: framings x write plans x trailing data
    let mut jobs: Vec<(usize, usize, usize, Framing, Plan)> = vec![]; // (client, response, trailing, framing, plan)
    for c in 0..2 {
        for (ri, (_, m)) in resps.iter().enumerate() {
            let head_len = r1::encode_head(m).len();
            for tr in 0..3usize {
                for f in [Framing::ContentLength, Framing::Chunked, Framing::Close] {
                    jobs.push((c, ri, tr, f, Plan::OneWrite));
                    if tr < 2 && head_len <= 200 {
                        jobs.push((c, ri, tr, f, Plan::PerByte));
                    }
                    if tr < 2 && (head_len <= 120 || tier == Tier::Thorough) && head_len <= 600 {
                        for k in 0..=head_len + if tr == 1 { 3 } else { 0 } {
                            jobs.push((c, ri, tr, f, Plan::SplitBody(k)));
                        }
                    }
                }
            }
        }
    }
    // spellings of the response's Content-Type line a server may legitimately use (media types and header names are
    // case-insensitive, parameters are allowed); index 0 is the plain one
    const CONTENT_TYPES: [Option<&str>; 6] = [
        None,
        Some("Content-Type: application/IPP"),
        Some("content-type: Application/Ipp"),
        Some("Content-Type: application/ipp; charset=utf-8"),
        Some("Content-Type:application/ipp"),
        Some("CONTENT-TYPE: application/ipp "),
    ];
    let njobs = jobs.len();
    for c in 0..2 {
        for ct in 1..CONTENT_TYPES.len() {
            for f in [Framing::ContentLength, Framing::Chunked, Framing::Close] {
                jobs.push((c, 1000 + ct, 1, f, Plan::OneWrite));
            }
        }
    }
    let _ = njobs;
    let req0 = reqs[1].clone();
    let mut s = Stats::new();
    for p in par_range(ctx.threads, jobs.len() as u64, 4, || (Stats::new(), runtime()), |acc, idx| {
        let (st, rt) = acc;
        let (c, ri, tr, f, plan) = jobs[idx as usize].clone();
        let (ri, ct) = if ri >= 1000 { (0usize, CONTENT_TYPES[ri - 1000]) } else { (ri, None) };
        let kind = kinds[c];
        let m = &resps[ri].1;
        let trailing: Vec<u8> = match tr {
            0 => vec![],
            1 => vec![3, 1, 3],
            _ => vmc::gen::payload_big(seed ^ 3),
        };
        let mut body = r1::encode_head(m);
        body.extend_from_slice(&trailing);
        let mut expect = m.canon();
        expect.data = trailing;
        let case = json!({"section": "response", "client": kind.name(), "response": resps[ri].0, "trailing": tr, "framing": format!("{:?}", f), "plan": format!("{:?}", plan), "content_type_line": ct});
        st.evaluations += 1;
        st.traces += 1;
        st.transitions += body.len() as u64;
        st.states.insert(idx | 2 << 40);
        st.nontrivial.insert(idx | 2 << 40);
        let script = Script { framing: f, plan, content_type: ct, ..Script::ok(body) };
        let (result, _ex, _extra, _, _) = exchange(kind, rt, "http", "/ipp", &Config::default(), build_ipp(&req0), script);
        match result {
            Ok(got) => match expect.diff(&got) {
                None => st.outcome("response-exact"),
                Some(d) => {
                    st.outcome("response-wrong");
                    st.violate(format!("{}:response-differs", kind.name()), format!("{}: {}", case, d), case.clone());
                }
            },
            Err(e) => {
                st.outcome("response-wrong");
                st.violate(format!("{}:good-response-rejected", kind.name()), format!("{}: send() = Err({})", case, &e[..e.len().min(200)]), case.clone());
            }
        }
        st.sample(1, || case.clone());
    }) {
        s.merge(p.0);
    }
    rep.section("response-side", s);
    eprintln!("  elapsed {:?}", rep.start.elapsed());

    // ---------------- (3) HTTP error statuses
    let mut s = Stats::new();
    let good = r1::encode(&resps[0].1);
    // body kinds: none; a successful IPP response; an IPP response with an ERROR status (what a real printer sends
    // along with an HTTP error); the same labelled text/html
    let ipp_error_body = {
        let mut m = resps[0].1.clone();
        m.code = 0x0404;
        r1::encode(&m)
    };
    for p in par_range(ctx.threads, 2 * 200 * 4, 4, || (Stats::new(), runtime()), |acc, idx| {
        let (st, rt) = acc;
        let t = vmc::explore::unrank(idx, &[2, 200, 4]);
        let kind = kinds[t[0] as usize];
        let status = 400 + t[1] as u16;
        let body = match t[2] {
            0 => vec![],
            1 => good.clone(),
            _ => ipp_error_body.clone(),
        };
        let body_name = ["none", "successful IPP response", "IPP response with status 0x0404", "IPP response with status 0x0404 labelled text/html"][t[2] as usize];
        let case = json!({"section": "status", "client": kind.name(), "status": status, "body": body_name});
        st.evaluations += 1;
        st.traces += 1;
        st.transitions += 1;
        st.states.insert(idx | 3 << 40);
        st.nontrivial.insert(idx | 3 << 40);
        let script = Script { status, content_type: if t[2] == 3 { Some("Content-Type: text/html") } else { None }, ..Script::ok(body) };
        let (result, _, extra, _, _) = exchange(kind, rt, "http", "/ipp", &Config::default(), build_ipp(&req0), script);
        if extra > 0 {
            st.violate(format!("{}:second-connection-after-http-error", kind.name()), format!("{}: {} further connection(s): a request is POSTed exactly once", case, extra), case.clone());
        }
        match result {
            Err(e) if !e.starts_with("PANIC") => st.outcome("http-error-is-error"),
            Err(e) => st.violate(format!("{}:panic", kind.name()), format!("{}: {}", case, e), case.clone()),
            Ok(_) => {
                st.outcome("http-error-accepted");
                st.violate(format!("{}:http-error-status-accepted", kind.name()), format!("{}: send() returned Ok", case), case.clone());
            }
        }
        st.sample(1, || case.clone());
    }) {
        s.merge(p.0);
    }
    rep.section("http-error-statuses", s);
    eprintln!("  elapsed {:?}", rep.start.elapsed());

    // ---------------- (4) connection cut at every offset, under each framing, and inside the HTTP head
    let mut jobs: Vec<(usize, usize, Framing, Option<usize>, Option<usize>)> = vec![];
    let ncut = tier.pick(3usize, resps.len());
    for c in 0..2 {
        for ri in 0..ncut.min(resps.len()) {
            let head_len = r1::encode_head(&resps[ri].1).len();
            if head_len > tier.pick(160, 1200) {
                continue;
            }
            for f in [Framing::ContentLength, Framing::Chunked, Framing::Close] {
                for k in 0..head_len {
                    jobs.push((c, ri, f, Some(k), None));
                }
            }
            for k in [0usize, 5, 12, 17, 30] {
                jobs.push((c, ri, Framing::ContentLength, None, Some(k)));
            }
        }
    }
    let mut s = Stats::new();
    for p in par_range(ctx.threads, jobs.len() as u64, 4, || (Stats::new(), runtime()), |acc, idx| {
        let (st, rt) = acc;
        let (c, ri, f, cut, cut_head) = jobs[idx as usize];
        let kind = kinds[c];
        let mut body = r1::encode_head(&resps[ri].1);
        body.extend_from_slice(b"TRAILING-DATA");
        let case = json!({"section": "cut", "client": kind.name(), "response": resps[ri].0, "framing": format!("{:?}", f), "cut_after_body_bytes": cut, "cut_in_head": cut_head});
        st.evaluations += 1;
        st.traces += 1;
        st.transitions += 1;
        st.states.insert(idx | 4 << 40);
        st.nontrivial.insert(idx | 4 << 40);
        let script = Script { framing: f, cut_after: cut, cut_in_head: cut_head, ..Script::ok(body) };
        let (result, _, extra, _, _) = exchange(kind, rt, "http", "/ipp", &Config::default(), build_ipp(&req0), script);
        if extra > 0 {
            st.violate(format!("{}:second-connection-after-cut", kind.name()), format!("{}: {} further connection(s): a request is POSTed exactly once", case, extra), case.clone());
        }
        match result {
            Err(e) if !e.starts_with("PANIC") => st.outcome("cut-is-error"),
            Err(e) => st.violate(format!("{}:panic", kind.name()), format!("{}: {}", case, e), case.clone()),
            Ok(got) => {
                st.outcome("cut-accepted");
                st.violate(
                    format!("{}:truncated-response-accepted:{:?}", kind.name(), f),
                    format!("{}: send() returned Ok with groups {:?}", case, got.groups.iter().map(|g| (g.0, g.1.len())).collect::<Vec<_>>()),
                    case.clone(),
                );
            }
        }
        st.sample(1, || case.clone());
    }) {
        s.merge(p.0);
    }
    rep.section("connection-cuts", s);
    eprintln!("  elapsed {:?}", rep.start.elapsed());

    // ---------------- (4') resets: the connection is RESET (TCP RST) after 64 request bytes / after the whole request;
    // every later connection would be served normally. Exactly one POST means: no second attempt, and an error.
    let mut s = Stats::new();
    {
        let mut jobs: Vec<(ClientKind, bool, usize)> = vec![];
        for kind in kinds {
            for late in [false, true] {
                for pk in [0usize, 2] {
                    jobs.push((kind, late, pk));
                }
            }
        }
        let good = r1::encode(&resps[0].1);
        for p in par_range(jobs.len(), jobs.len() as u64, 1, || (Stats::new(), runtime()), |acc, i| {
            let (st, rt) = acc;
            let (kind, late, pk) = jobs[i as usize];
            let case = json!({"section": "reset", "client": kind.name(), "reset": if late { "after the whole request" } else { "after 64 request bytes" }, "payload": pk});
            st.evaluations += 1;
            st.traces += 1;
            st.transitions += 1;
            st.states.insert(fnv(case.to_string().as_bytes()));
            st.nontrivial.insert(fnv(case.to_string().as_bytes()));
            let l = Arc::new(Listener::bind());
            let port = l.port;
            let l2 = l.clone();
            let done = Arc::new(std::sync::atomic::AtomicBool::new(false));
            let done2 = done.clone();
            let good2 = good.clone();
            let server = std::thread::spawn(move || -> usize {
                // first connection: reset; then serve whatever else arrives until the client has returned
                let mut later = 0usize;
                if let Some(mut c) = l2.accept_until(Duration::from_secs(20), &done2) {
                    if late {
                        let _ = read_request(&mut c, Instant::now() + Duration::from_secs(20));
                        reset(c);
                    } else {
                        read_some_then_reset(c, 64);
                    }
                    let t0 = Instant::now();
                    loop {
                        if let Some(c2) = l2.accept(Duration::from_millis(20)) {
                            later += 1;
                            let _ = serve_plain(c2, &Script::ok(good2.clone()));
                        } else if done2.load(std::sync::atomic::Ordering::SeqCst) || t0.elapsed() > Duration::from_secs(30) {
                            break;
                        }
                    }
                }
                later
            });
            let pay = payload(pk, seed);
            let uri = format!("http://127.0.0.1:{}/ipp", port);
            let result = send(kind, rt, &uri, &Config::default(), with_payload(&reqs[1], &pay, 1));
            // give a late second attempt the chance to show up
            std::thread::sleep(Duration::from_millis(50));
            done.store(true, std::sync::atomic::Ordering::SeqCst);
            let later = server.join().unwrap_or(0);
            if later > 0 {
                st.outcome("second-attempt");
                st.violate(format!("{}:second-post-after-reset", kind.name()), format!("{}: {} further connection(s) after the reset - a request is sent exactly once (its payload is a one-shot stream)", case, later), case.clone());
            } else if result.is_ok() {
                st.outcome("success-after-reset");
                st.violate(format!("{}:success-after-reset", kind.name()), format!("{}: send() returned Ok although its only connection was reset", case), case.clone());
            } else {
                st.outcome("reset-is-error");
            }
            st.sample(1, || case.clone());
        }) {
            s.merge(p.0);
        }
    }
    rep.section("connection-resets", s);
    eprintln!("  elapsed {:?}", rep.start.elapsed());

    // ---------------- (4a) huge bodies, both directions: streamed from a pattern generator and verified on the fly.
    // A cap, a limit adaptor or a counter of the wrong width in the body path shows as a short or altered body.
    let mut s = Stats::new();
    {
        let huge: u64 = tier.pick((256u64 << 20) + 4097, (1u64 << 30) + 4097);
        let mut jobs: Vec<(ClientKind, u8, Framing)> = vec![];
        for kind in kinds {
            for f in [Framing::ContentLength, Framing::Chunked, Framing::Close] {
                jobs.push((kind, 0, f)); // huge RESPONSE under each framing
            }
            jobs.push((kind, 1, Framing::ContentLength)); // huge REQUEST payload
        }
        for p in par_range(jobs.len(), jobs.len() as u64, 1, || (Stats::new(), runtime()), |acc, i| {
            let (st, rt) = acc;
            let (kind, dir, framing) = jobs[i as usize];
            let case = json!({"section": "huge", "client": kind.name(), "direction": if dir == 0 { "response" } else { "request" }, "framing": format!("{:?}", framing), "bytes": huge});
            st.evaluations += 1;
            st.traces += 1;
            st.transitions += huge >> 16;
            st.states.insert(fnv(case.to_string().as_bytes()));
            st.nontrivial.insert(fnv(case.to_string().as_bytes()));
            let verdict = huge_exchange(kind, rt, dir, framing, huge, &resps[0].1, &reqs[1]);
            match verdict {
                Ok(()) => st.outcome("huge-body-exact"),
                Err((c, d)) => {
                    st.outcome("huge-body-wrong");
                    st.violate(format!("{}:{}", kind.name(), c), format!("{}: {}", case, d), case.clone());
                }
            }
            st.sample(1, || case.clone());
        }) {
            s.merge(p.0);
        }
    }
    rep.section("huge-bodies", s);
    eprintln!("  elapsed {:?}", rep.start.elapsed());

    // ---------------- (5) stalls and the request timeout
    let mut s = Stats::new();
    {
        let body = r1::encode(&resps[0].1);
        let mut stall_cases: Vec<(ClientKind, &'static str, Script, Option<u64>)> = vec![];
        for kind in kinds {
            for (where_, script) in [
                ("before-status", Script { stall_before_status: Some(Duration::from_millis(1500)), ..Script::ok(body.clone()) }),
                ("mid-attributes", Script { stall_mid: Some((body.len() / 2, Duration::from_millis(1500))), plan: Plan::OneWrite, ..Script::ok(body.clone()) }),
                // never silent for long, but slower overall than the timeout allows: 100 ms pauses, > 1 s in total
                ("dribbled-16-bytes-per-100ms", Script { dribble: Some((16, Duration::from_millis(100))), ..Script::ok(body.clone()) }),
                ("dribbled-chunked", Script { dribble: Some((24, Duration::from_millis(120))), framing: Framing::Chunked, ..Script::ok(body.clone()) }),
                ("dribbled-close-delimited", Script { dribble: Some((24, Duration::from_millis(120))), framing: Framing::Close, ..Script::ok(body.clone()) }),
            ] {
                for timeout in [Some(300u64), None] {
                    stall_cases.push((kind, where_, script.clone(), timeout));
                }
            }
        }
        for p in par_range(stall_cases.len(), stall_cases.len() as u64, 1, || (Stats::new(), runtime()), |acc, i| {
            let (s, rt) = acc;
            let (kind, where_, script, timeout) = stall_cases[i as usize].clone();
            let case = json!({"section": "stall", "client": kind.name(), "where": where_, "request_timeout_ms": timeout});
            s.evaluations += 1;
            s.traces += 1;
            s.transitions += 1;
            s.states.insert(fnv(case.to_string().as_bytes()));
            s.nontrivial.insert(fnv(case.to_string().as_bytes()));
            let cfg = Config { timeout_ms: timeout, ..Default::default() };
            let (result, _, _, _, took) = exchange(kind, rt, "http", "/ipp", &cfg, build_ipp(&req0), script.clone());
            match (timeout, result) {
                (Some(_), Err(_)) if took < Duration::from_secs(5) => s.outcome("timeout-is-error"),
                (Some(_), Err(_)) => s.violate(format!("{}:timeout-too-late", kind.name()), format!("{}: error only after {:?}", case, took), case.clone()),
                (Some(_), Ok(_)) => s.violate(format!("{}:timeout-ignored", kind.name()), format!("{}: send() returned Ok after {:?} although the exchange took longer than the request timeout (server stalled 1.5 s / dribbled for more than 1 s)", case, took), case.clone()),
                (None, Ok(_)) => s.outcome("no-timeout-waits"),
                (None, Err(e)) => s.violate(format!("{}:spurious-timeout", kind.name()), format!("{}: no timeout configured but send() failed: {}", case, &e[..e.len().min(200)]), case.clone()),
            }
            s.sample(1, || case.clone());
        }) {
            s.merge(p.0);
        }
    }
    rep.section("stalls-and-timeouts", s);
    eprintln!("  elapsed {:?}", rep.start.elapsed());

    // ---------------- (5b) history: two sends through ONE client value, the first one ending in every way
    let mut s = Stats::new();
    {
        let good = r1::encode(&resps[0].1);
        let firsts: Vec<(&'static str, Script)> = vec![
            ("ok", Script::ok(good.clone())),
            ("http-500", Script { status: 500, ..Script::ok(vec![]) }),
            ("http-404-with-ipp-body", Script { status: 404, ..Script::ok(good.clone()) }),
            ("cut-mid-attributes", Script { cut_after: Some(good.len() / 2), ..Script::ok(good.clone()) }),
            ("cut-in-head", Script { cut_in_head: Some(9), ..Script::ok(good.clone()) }),
            ("chunked-ok", Script { framing: Framing::Chunked, ..Script::ok(good.clone()) }),
            ("close-delimited-ok", Script { framing: Framing::Close, ..Script::ok(good.clone()) }),
            ("ipp-error-status", Script::ok(r1::encode(&resps.iter().find(|r| r.0 == "error-response").map(|r| r.1.clone()).unwrap_or_else(|| resps[0].1.clone())))),
        ];
        let mut hist_cases: Vec<(ClientKind, usize)> = vec![];
        for kind in kinds {
            for f in 0..firsts.len() {
                hist_cases.push((kind, f));
            }
        }
        for p in par_range(ctx.threads, hist_cases.len() as u64, 1, Stats::new, |st, i| {
            let (kind, f) = hist_cases[i as usize];
            let case = json!({"section": "two-sends-one-client", "client": kind.name(), "first_exchange": firsts[f].0});
            st.evaluations += 1;
            st.traces += 2;
            st.transitions += 2;
            st.states.insert(fnv(case.to_string().as_bytes()));
            st.nontrivial.insert(fnv(case.to_string().as_bytes()));
            match two_sends(kind, &firsts[f].1, &req0, &resps[1].1) {
                Ok(()) => st.outcome("second-send-independent"),
                Err(d) => {
                    st.outcome("second-send-affected");
                    st.violate(format!("{}:history:{}", kind.name(), firsts[f].0), format!("{}: {}", case, d), case.clone());
                }
            }
            st.sample(1, || case.clone());
        }) {
            s.merge(p);
        }
    }
    rep.section("two-sends-through-one-client", s);

    // ---------------- (6) concurrency: N senders, every answer order
    let mut s = Stats::new();
    for n in 2..=tier.pick(3usize, 4usize) {
        let mut orders: Vec<Vec<usize>> = vec![];
        permutations(&mut (0..n).collect::<Vec<_>>(), 0, &mut orders);
        for mode in 0..3usize {
            for order in &orders {
                let mode_name = ["blocking threads", "async current-thread", "async multi-thread"][mode];
                let case = json!({"section": "concurrency", "senders": n, "mode": mode_name, "answer_order": order});
                s.evaluations += 1;
                s.traces += 1;
                s.transitions += n as u64;
                s.states.insert(fnv(case.to_string().as_bytes()));
                s.nontrivial.insert(fnv(case.to_string().as_bytes()));
                match concurrent(n, mode, order, &req0) {
                    Ok(()) => s.outcome("own-response"),
                    Err(d) => {
                        s.outcome("mixed-up");
                        s.violate(format!("concurrency:{}", ["blocking", "async-current", "async-multi"][mode]), format!("{}: {}", case, d), case.clone());
                    }
                }
                s.sample(1, || case.clone());
            }
        }
    }
    rep.section("concurrent-senders", s);
    rep.finish()
}

/// one exchange with a huge response (dir 0) or a huge request payload (dir 1)
fn huge_exchange(kind: ClientKind, rt: &tokio::runtime::Runtime, dir: u8, framing: Framing, huge: u64, resp: &Msg, req: &Msg) -> Result<(), (String, String)> {
    use futures_util::io::AsyncReadExt;
    use std::io::{Read, Write};
    use vmc::env::{pattern_fill, PatternCheck, PatternSource};
    let l = Arc::new(Listener::bind());
    let port = l.port;
    let l2 = l.clone();
    let done = Arc::new(std::sync::atomic::AtomicBool::new(false));
    let done2 = done.clone();
    let resp_head = r1::encode_head(resp);
    let small = r1::encode(resp);
    let server = std::thread::spawn(move || -> Option<Exchange> {
        let mut s = l2.accept_until(Duration::from_secs(20), &done2)?;
        let ex = read_request(&mut s, Instant::now() + Duration::from_secs(120));
        if ex.error.is_some() {
            return Some(ex);
        }
        if dir == 1 {
            write_response(&mut s, &Script::ok(small));
            let _ = s.shutdown(std::net::Shutdown::Write);
            return Some(ex);
        }
        let total = resp_head.len() as u64 + huge;
        let mut head = "HTTP/1.1 200 OK\r\nServer: vmc-peer\r\nContent-Type: application/ipp\r\n".to_string();
        match framing {
            Framing::ContentLength => head.push_str(&format!("Content-Length: {}\r\n", total)),
            Framing::Chunked => head.push_str("Transfer-Encoding: chunked\r\n"),
            Framing::Close => head.push_str("Connection: close\r\n"),
        }
        head.push_str("\r\n");
        let mut ok = s.write_all(head.as_bytes()).is_ok();
        let mut piece = vec![0u8; 1 << 16];
        let mut off = 0u64;
        let mut first = true;
        while ok && off < huge {
            let n = ((huge - off) as usize).min(piece.len());
            pattern_fill(off, &mut piece[..n]);
            let mut out: Vec<u8> = vec![];
            if first {
                out.extend_from_slice(&resp_head);
                first = false;
            }
            out.extend_from_slice(&piece[..n]);
            ok = if framing == Framing::Chunked {
                s.write_all(format!("{:x}\r\n", out.len()).as_bytes()).is_ok() && s.write_all(&out).is_ok() && s.write_all(b"\r\n").is_ok()
            } else {
                s.write_all(&out).is_ok()
            };
            off += n as u64;
        }
        if ok && framing == Framing::Chunked {
            let _ = s.write_all(b"0\r\n\r\n");
        }
        let _ = s.flush();
        let _ = s.shutdown(std::net::Shutdown::Write);
        // let the client drain before the socket goes away
        let mut sink = [0u8; 1024];
        let _ = s.set_read_timeout(Some(Duration::from_secs(5)));
        while let Ok(n) = s.read(&mut sink) {
            if n == 0 {
                break;
            }
        }
        Some(ex)
    });
    let uri = format!("http://127.0.0.1:{}/ipp", port);
    let mut request = build_ipp(req);
    if dir == 1 {
        *request.payload_mut() = IppPayload::new(PatternSource::new(Arc::new(vec![]), huge));
    }
    let cfg = Config::default();
    let fail = |c: &str, d: String| Err((c.to_string(), d));
    // the response's document is verified while it streams
    let outcome: Result<(vmc::r1::CMsg, PatternCheck), String> = match kind {
        ClientKind::Blocking => blocking_client(&uri, &cfg).send(request).map_err(|e| format!("{:?}", e)).and_then(|r| {
            let h = r.header().clone();
            let a = r.attributes().clone();
            let mut p = r.into_payload();
            let mut chk = PatternCheck::new();
            let mut buf = vec![0u8; 1 << 16];
            let mut small_tail = vec![];
            loop {
                match Read::read(&mut p, &mut buf) {
                    Ok(0) => break,
                    Ok(n) => {
                        if dir == 0 {
                            chk.feed(&buf[..n])
                        } else {
                            small_tail.extend_from_slice(&buf[..n])
                        }
                    }
                    Err(e) if e.kind() == std::io::ErrorKind::Interrupted => continue,
                    Err(e) => return Err(format!("payload read error {:?} after {} bytes", e.kind(), chk.received)),
                }
            }
            cmsg_from_parts(&h, &a, small_tail).map(|m| (m, chk))
        }),
        ClientKind::Async => {
            let c = async_client(&uri, &cfg);
            rt.block_on(async move {
                let r = c.send(request).await.map_err(|e| format!("{:?}", e))?;
                let h = r.header().clone();
                let a = r.attributes().clone();
                let mut p = r.into_payload();
                let mut chk = PatternCheck::new();
                let mut buf = vec![0u8; 1 << 16];
                let mut small_tail = vec![];
                loop {
                    match AsyncReadExt::read(&mut p, &mut buf).await {
                        Ok(0) => break,
                        Ok(n) => {
                            if dir == 0 {
                                chk.feed(&buf[..n])
                            } else {
                                small_tail.extend_from_slice(&buf[..n])
                            }
                        }
                        Err(e) => return Err(format!("payload read error {:?} after {} bytes", e.kind(), chk.received)),
                    }
                }
                cmsg_from_parts(&h, &a, small_tail).map(|m| (m, chk))
            })
        }
    };
    done.store(true, std::sync::atomic::Ordering::SeqCst);
    let ex = server.join().ok().flatten();
    let (got, chk) = match outcome {
        Ok(x) => x,
        Err(e) => return fail("huge-exchange-failed", format!("send() / reading the response failed: {}", &e[..e.len().min(300)])),
    };
    let mut expect = resp.canon();
    expect.data = vec![];
    if let Some(d) = expect.diff(&got) {
        return fail("huge-response-differs", d);
    }
    if dir == 0 {
        if chk.received != huge || chk.first_mismatch.is_some() {
            return fail(
                if chk.first_mismatch.is_some() { "huge-response-corrupt" } else if chk.received < huge { "huge-response-short" } else { "huge-response-long" },
                format!("response document of {} bytes came back as {} bytes (first altered byte {:?})", huge, chk.received, chk.first_mismatch),
            );
        }
    } else {
        let ex = match ex {
            Some(e) => e,
            None => return fail("huge-request-missing", "no request reached the peer".into()),
        };
        if let Some(e) = &ex.error {
            return fail("huge-request-incomplete", e.clone());
        }
        let head = build_ipp(req).to_bytes().to_vec();
        if ex.body.len() < head.len() || ex.body[..head.len()] != head[..] {
            return fail("huge-request-head-differs", format!("request body starts with {}", hex(&ex.body[..ex.body.len().min(64)])));
        }
        let mut c = PatternCheck::new();
        for piece in ex.body[head.len()..].chunks(1 << 16) {
            c.feed(piece);
        }
        if c.received != huge || c.first_mismatch.is_some() {
            return fail(
                if c.first_mismatch.is_some() { "huge-request-corrupt" } else if c.received < huge { "huge-request-short" } else { "huge-request-long" },
                format!("request payload of {} bytes arrived as {} bytes (first altered byte {:?})", huge, c.received, c.first_mismatch),
            );
        }
    }
    Ok(())
}

fn cpu_time() -> Duration {
    let s = std::fs::read_to_string("/proc/self/stat").unwrap_or_default();
    let f: Vec<&str> = s.rsplit(')').next().unwrap_or("").split_whitespace().collect();
    let ticks: u64 = f.get(11).and_then(|x| x.parse().ok()).unwrap_or(0) + f.get(12).and_then(|x| x.parse().ok()).unwrap_or(0);
    Duration::from_millis(ticks * 10)
}

/// two sequential sends through one client value against one listener: whatever happened to the first
/// exchange, the second must be one fresh POST that gets exactly its own response
fn two_sends(kind: ClientKind, first: &Script, base: &Msg, second_resp: &Msg) -> Result<(), String> {
    let l = Listener::bind();
    let port = l.port;
    let first = first.clone();
    let second = Script::ok(r1::encode(second_resp));
    let server = std::thread::spawn(move || {
        let mut seen = vec![];
        for script in [first, second] {
            match l.accept(Duration::from_secs(10)) {
                Some(s) => seen.push(serve_plain(s, &script)),
                None => break,
            }
        }
        let extra = l.pending();
        (seen, extra)
    });
    let uri = format!("http://127.0.0.1:{}/ipp", port);
    let mk = |id: u32| {
        let mut m = base.clone();
        m.request_id = id;
        with_payload(&m, format!("doc-{}", id).as_bytes(), 0)
    };
    let rt = runtime();
    let (_r1, r2) = match kind {
        ClientKind::Blocking => {
            let c = blocking_client(&uri, &Config::default());
            (finish_blocking(c.send(mk(1))), finish_blocking(c.send(mk(2))))
        }
        ClientKind::Async => {
            let c = async_client(&uri, &Config::default());
            rt.block_on(async { (finish_async(c.send(mk(1)).await).await, finish_async(c.send(mk(2)).await).await) })
        }
    };
    let (seen, extra) = server.join().map_err(|_| "peer panicked".to_string())?;
    if seen.len() != 2 {
        return Err(format!("the peer saw {} connection(s) for two sends", seen.len()));
    }
    if extra != 0 {
        return Err(format!("{} extra connection(s)", extra));
    }
    let got = r2.map_err(|e| format!("second send failed: {}", &e[..e.len().min(200)]))?;
    if let Some(d) = second_resp.canon().diff(&got) {
        return Err(format!("second send returned a different response: {}", d));
    }
    let body = r1::decode(&seen[1].body).map_err(|e| format!("second request malformed: {}", e.0))?;
    if body.request_id != 2 || body.data != b"doc-2" {
        return Err(format!("second request carried request-id {} and {} payload bytes", body.request_id, body.data.len()));
    }
    Ok(())
}

fn permutations(v: &mut Vec<usize>, k: usize, out: &mut Vec<Vec<usize>>) {
    if k == v.len() {
        out.push(v.clone());
        return;
    }
    for i in k..v.len() {
        v.swap(k, i);
        permutations(v, k + 1, out);
        v.swap(k, i);
    }
}

/// N senders through ONE client value; the peer collects all N requests, then answers in `order`
fn concurrent(n: usize, mode: usize, order: &[usize], base: &Msg) -> Result<(), String> {
    let l = Listener::bind();
    let port = l.port;
    let order = order.to_vec();
    let server = std::thread::spawn(move || -> Result<(), String> {
        // collect N connections and read every request completely (barrier)
        let mut conns = vec![];
        for _ in 0..n {
            let mut s = l.accept(Duration::from_secs(20)).ok_or("peer: a sender never connected")?;
            let ex = read_request(&mut s, Instant::now() + Duration::from_secs(20));
            if let Some(e) = ex.error {
                return Err(format!("peer: {}", e));
            }
            let m = r1::decode(&ex.body).map_err(|e| format!("peer: malformed request: {}", e.0))?;
            conns.push((m.request_id, m.data, s));
        }
        conns.sort_by_key(|c| c.0);
        if conns.iter().map(|c| c.0).collect::<Vec<_>>() != (1..=n as u32).collect::<Vec<_>>() {
            return Err(format!("peer: request ids {:?}", conns.iter().map(|c| c.0).collect::<Vec<_>>()));
        }
        let mut slots: Vec<Option<(u32, Vec<u8>, std::net::TcpStream)>> = conns.into_iter().map(Some).collect();
        for &i in &order {
            let (id, data, mut s) = slots[i].take().unwrap();
            let mut m = Msg::new(0x0101, 0, id);
            m.groups.push(r1::Group { tag: r1::TAG_OPERATION, attrs: vec![] });
            m.data = format!("marker-for-{}:", id).into_bytes();
            m.data.extend_from_slice(&data);
            write_response(&mut s, &Script::ok(r1::encode(&m)));
            let _ = s.shutdown(std::net::Shutdown::Write);
            std::thread::sleep(Duration::from_millis(2));
        }
        Ok(())
    });
    let uri = format!("http://127.0.0.1:{}/ipp", port);
    let mk = |i: usize| {
        let mut m = base.clone();
        m.request_id = i as u32 + 1;
        with_payload(&m, format!("payload-of-sender-{}", i + 1).as_bytes(), 0)
    };
    let check = |i: usize, r: Result<vmc::r1::CMsg, String>| -> Result<(), String> {
        let got = r.map_err(|e| format!("sender {} failed: {}", i + 1, e))?;
        let want = format!("marker-for-{}:payload-of-sender-{}", i + 1, i + 1).into_bytes();
        if got.request_id != i as u32 + 1 || got.data != want {
            return Err(format!("sender {} received the response for request-id {} with data {:?}", i + 1, got.request_id, String::from_utf8_lossy(&got.data)));
        }
        Ok(())
    };
    let results: Vec<Result<(), String>> = match mode {
        0 => {
            let client = Arc::new(blocking_client(&uri, &Config::default()));
            let hs: Vec<_> = (0..n)
                .map(|i| {
                    let c = client.clone();
                    let req = mk(i);
                    std::thread::spawn(move || finish_blocking(c.send(req)))
                })
                .collect();
            hs.into_iter().enumerate().map(|(i, h)| check(i, h.join().unwrap_or_else(|_| Err("panic".into())))).collect()
        }
        1 => {
            let rt = runtime();
            let client = async_client(&uri, &Config::default());
            let reqs: Vec<_> = (0..n).map(mk).collect();
            let outs = rt.block_on(async {
                let futs = reqs.into_iter().map(|r| async { finish_async(client.send(r).await).await });
                futures_util::future::join_all(futs).await
            });
            outs.into_iter().enumerate().map(|(i, r)| check(i, r)).collect()
        }
        _ => {
            let rt = tokio::runtime::Builder::new_multi_thread().worker_threads(4).enable_all().build().map_err(|e| e.to_string())?;
            let client = Arc::new(async_client(&uri, &Config::default()));
            let hs: Vec<_> = (0..n)
                .map(|i| {
                    let c = client.clone();
                    let req = mk(i);
                    rt.spawn(async move { finish_async(c.send(req).await).await })
                })
                .collect();
            let outs: Vec<_> = hs.into_iter().map(|h| rt.block_on(h).unwrap_or_else(|_| Err("panic".into()))).collect();
            outs.into_iter().enumerate().map(|(i, r)| check(i, r)).collect()
        }
    };
    let served = server.join().unwrap_or_else(|_| Err("peer panicked".into()));
    for r in results {
        r?;
    }
    served
}

#[allow(dead_code)]
fn unused(_: Json) {}
