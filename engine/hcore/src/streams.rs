//! C05 (async ≡ blocking under every delivery schedule), C06 (exact consumption, fragmentation
//! independence), C07 (truncated / failing streams are never accepted) — E1 + E4.

use crate::adapter::*;
use futures_util::io::AsyncReadExt;
use ipp::parser::{AsyncIppParser, IppParser};
use ipp::reader::{AsyncIppReader, IppReader};
use std::io::{ErrorKind, Read};
use std::sync::atomic::{AtomicUsize, Ordering::SeqCst};
use std::sync::Arc;
use vmc::env::*;
use vmc::explore::par_slice;
use vmc::gen::*;
use vmc::r1;
use vmc::report::{Ctx, Report, Stats, Tier};
use vmc::{fnv, hex, json, unhex, Json};

// ------------------------------------------------------------------ running the two parsers

#[derive(Clone, Copy, PartialEq, Eq, Debug)]
pub enum Entry {
    Parse,
    Parts,
}

#[derive(Debug, Clone, PartialEq, Eq)]
pub struct Observed {
    pub outcome: Outcome,
    /// bytes the source had delivered at the moment the parse call returned
    pub delivered_at_return: usize,
    pub max_end_requested_at_return: usize,
}

fn finish_blocking(
    r: Result<(ipp::IppHeader, ipp::attribute::IppAttributes, Box<dyn Read>), ipp::parser::IppParseError>,
) -> Outcome {
    match r {
        Ok((h, a, mut rest)) => {
            let mut payload = vec![];
            // the consumer retries interrupted reads, as any `Read` user must
            let mut buf = [0u8; 4096];
            loop {
                match rest.read(&mut buf) {
                    Ok(0) => break,
                    Ok(n) => payload.extend_from_slice(&buf[..n]),
                    Err(e) if e.kind() == ErrorKind::Interrupted => continue,
                    Err(e) => return Outcome::OutOfModel(format!("payload read error {:?}", e.kind())),
                }
            }
            match cmsg_from_parts(&h, &a, payload) {
                Ok(m) => Outcome::Ok(m),
                Err(e) => Outcome::OutOfModel(e),
            }
        }
        Err(e) => classify_err(e),
    }
}

pub fn run_blocking(data: &Arc<Vec<u8>>, script: Vec<Step>, entry: Entry) -> (Observed, Arc<Monitor>) {
    let mon = Monitor::new();
    let src = ScriptSource::new(data.clone(), script, mon.clone());
    let mon2 = mon.clone();
    let r = std::panic::catch_unwind(std::panic::AssertUnwindSafe(move || {
        let parser = IppParser::new(IppReader::new(src));
        match entry {
            Entry::Parse => {
                let r = parser.parse();
                let at = (mon2.delivered(), mon2.max_end());
                (
                    finish_blocking(r.map(|resp| {
                        let h = resp.header().clone();
                        let a = resp.attributes().clone();
                        (h, a, Box::new(resp.into_payload()) as Box<dyn Read>)
                    })),
                    at,
                )
            }
            Entry::Parts => {
                let r = parser.parse_parts();
                let at = (mon2.delivered(), mon2.max_end());
                (finish_blocking(r.map(|(h, a, rd)| (h, a, Box::new(rd.into_inner()) as Box<dyn Read>))), at)
            }
        }
    }));
    let (outcome, at) = match r {
        Ok(x) => x,
        Err(p) => (Outcome::Panic(panic_text(p)), (mon.delivered(), mon.max_end())),
    };
    (
        Observed {
            outcome,
            delivered_at_return: at.0,
            max_end_requested_at_return: at.1,
        },
        mon,
    )
}

#[derive(Debug, Clone, PartialEq, Eq)]
pub enum AsyncRun {
    Done(Observed, usize),
    LostWakeup(usize),
    Horizon(usize),
}

pub fn run_async(data: &Arc<Vec<u8>>, script: Vec<Step>, entry: Entry, spurious_at: Option<usize>) -> (AsyncRun, Arc<Monitor>) {
    let mon = Monitor::new();
    let pend = script.iter().filter(|s| matches!(s, Step::Pending { .. })).count();
    let horizon = 4 * (data.len() + pend) + 64;
    let src = ScriptSource::new(data.clone(), script, mon.clone());
    let mon2 = mon.clone();
    let at_d = Arc::new(AtomicUsize::new(usize::MAX));
    let at_m = Arc::new(AtomicUsize::new(usize::MAX));
    let (ad, am) = (at_d.clone(), at_m.clone());
    let mon3 = mon.clone();
    let r = std::panic::catch_unwind(std::panic::AssertUnwindSafe(move || {
        let fut = async move {
            let parser = AsyncIppParser::new(AsyncIppReader::new(src));
            let parsed = match entry {
                Entry::Parse => parser.parse().await.map(|resp| {
                    let h = resp.header().clone();
                    let a = resp.attributes().clone();
                    (h, a, Box::new(resp.into_payload()) as Box<dyn futures_util::io::AsyncRead + Unpin>)
                }),
                Entry::Parts => parser
                    .parse_parts()
                    .await
                    .map(|(h, a, rd)| (h, a, Box::new(rd.into_inner()) as Box<dyn futures_util::io::AsyncRead + Unpin>)),
            };
            ad.store(mon2.delivered(), SeqCst);
            am.store(mon2.max_end(), SeqCst);
            match parsed {
                Ok((h, a, mut rest)) => {
                    let mut payload = vec![];
                    match rest.read_to_end(&mut payload).await {
                        Ok(_) => match cmsg_from_parts(&h, &a, payload) {
                            Ok(m) => Outcome::Ok(m),
                            Err(e) => Outcome::OutOfModel(e),
                        },
                        Err(e) => Outcome::OutOfModel(format!("payload read error {:?}", e.kind())),
                    }
                }
                Err(e) => classify_err(e),
            }
        };
        run_manual(fut, &mon3, horizon, spurious_at)
    }));
    let res = match r {
        Ok(Run::Done { value, polls }) => AsyncRun::Done(
            Observed {
                outcome: value,
                delivered_at_return: at_d.load(SeqCst),
                max_end_requested_at_return: at_m.load(SeqCst),
            },
            polls,
        ),
        Ok(Run::LostWakeup { polls }) => AsyncRun::LostWakeup(polls),
        Ok(Run::Horizon { polls }) => AsyncRun::Horizon(polls),
        Err(p) => AsyncRun::Done(
            Observed {
                outcome: Outcome::Panic(panic_text(p)),
                delivered_at_return: mon.delivered(),
                max_end_requested_at_return: mon.max_end(),
            },
            0,
        ),
    };
    (res, mon)
}

// ------------------------------------------------------------------ inputs

pub fn short_messages(limit: usize) -> Vec<(String, Vec<u8>)> {
    let h = TOK_HEADER.to_vec();
    let mk = |name: &str, tail: &[u8]| {
        let mut b = h.clone();
        b.extend_from_slice(tail);
        (name.to_string(), b)
    };
    let mut v = vec![
        mk("end-only", &[3]),
        mk("op-end", &[1, 3]),
        mk("op-kw", &[1, 0x44, 0, 1, b'b', 0, 1, b'k', 3]),
        mk("printer-novalue", &[4, 0x13, 0, 1, b'o', 0, 0, 3]),
        mk("op-end-payload", &[1, 3, b'a', b'b']),
        mk("end-then-lookalike-payload", &[3, 1, 3, 3]),
        mk("tag-00", &[0]),
        mk("tag-7f", &[1, 0x7f]),
        mk("tag-06", &[6, 3]),
        mk("unnamed-collection", &[1, 0x34, 0, 0, 0, 0, 0x37, 0, 0, 0, 0, 3]),
        mk("begcollection-with-octets", &[1, 0x34, 0, 1, b'c', 0, 1, 0xff, 3]),
        mk("short-integer", &[1, 0x21, 0, 1, b'a', 0, 2, 0, 1, 3]),
        mk("short-boolean", &[1, 0x22, 0, 1, b'a', 0, 0, 3]),
        (String::from("truncated-header"), h[..5].to_vec()),
        mk("truncated-name-length", &[1, 0x21, 0]),
        mk("truncated-value-length", &[1, 0x21, 0, 1, b'a', 0]),
        mk("truncated-value", &[1, 0x21, 0, 1, b'a', 0, 4, 0, 0]),
        mk("name-length-beyond-data", &[1, 0x21, 0, 0xff, b'a']),
        mk("unregistered-value", &[2, 0x11, 0, 0, 0, 1, 0xff, 3]),
        mk("op-int", &[1, 0x21, 0, 1, b'a', 0, 4, 0, 0, 0, 1, 3]),
        mk("text-with-language", &[1, 0x35, 0, 1, b't', 0, 5, 0, 1, b'e', 0, 0, 3]),
        mk("bad-text-with-language", &[1, 0x35, 0, 1, b't', 0, 3, 0, 9, b'e', 3]),
        mk("endcollection-alone", &[1, 0x37, 0, 0, 0, 0, 3]),
        mk("member-name-alone", &[1, 0x4a, 0, 0, 0, 1, b'm', 3]),
        mk("delimiters-only", &[5, 4, 2, 1, 3]),
        mk("no-end-tag", &[1, 0x44, 0, 1, b'b', 0, 1, b'k']),
        mk("additional-kw", &[1, 0x44, 0, 1, b'b', 0, 0, 0x44, 0, 0, 0, 0, 3]),
    ];
    v.retain(|(_, b)| b.len() <= limit);
    v
}

/// single-attribute messages: tag x value length x fill (C02 family (b), named-attribute context)
pub fn grid_messages() -> Vec<(String, Vec<u8>)> {
    let mut out = vec![];
    for tag in 0u16..=0xff {
        for len in [0usize, 1, 2, 3, 4, 5, 8, 9, 11, 12] {
            let mut b = TOK_HEADER.to_vec();
            b.push(1);
            b.push(tag as u8);
            b.extend_from_slice(&[0, 1, b'v']);
            b.extend_from_slice(&(len as u16).to_be_bytes());
            for i in 0..len {
                b.push(i as u8);
            }
            b.push(3);
            out.push((format!("grid[{:02x},{}]", tag, len), b));
        }
    }
    out
}

// ------------------------------------------------------------------ schedule families

#[derive(Clone, Debug)]
pub struct Sched {
    pub name: String,
    pub script: Vec<Step>,
    pub spurious_at: Option<usize>,
}

fn pend_steps(p: u8) -> Vec<Step> {
    match p {
        0 => vec![],
        1 => vec![Step::Pending { deferred: false }],
        2 => vec![Step::Pending { deferred: true }],
        _ => vec![Step::Pending { deferred: false }, Step::Pending { deferred: true }],
    }
}

/// uniform chunk sizes 1..n in three readiness modes (+ one spurious re-poll at each poll number for c=1)
pub fn fam_uniform(n: usize, f: &mut dyn FnMut(Sched)) {
    for c in 1..=n.max(1) {
        for mode in 0..3u8 {
            let mut script = vec![];
            let mut left = n;
            while left > 0 {
                script.extend(pend_steps(mode));
                let k = c.min(left);
                script.push(Step::Chunk(k));
                left -= k;
            }
            // readiness before EOF as well
            script.extend(pend_steps(mode));
            f(Sched {
                name: format!("uniform(c={},mode={})", c, mode),
                script,
                spurious_at: None,
            });
        }
    }
}

/// every 1-cut and (if `two`) every 2-cut composition, each cut preceded by every readiness pattern
pub fn fam_cuts(n: usize, two: bool, f: &mut dyn FnMut(Sched)) {
    for a in 1..n {
        for pa in 0..4u8 {
            for p0 in 0..2u8 {
                let mut script = pend_steps(if p0 == 1 { 2 } else { 0 });
                script.push(Step::Chunk(a));
                script.extend(pend_steps(pa));
                script.push(Step::Chunk(n - a));
                f(Sched {
                    name: format!("cut({};p0={},p={})", a, p0, pa),
                    script,
                    spurious_at: None,
                });
            }
        }
        if two {
            for b in a + 1..n {
                for pa in 0..4u8 {
                    for pb in 0..4u8 {
                        let mut script = vec![Step::Chunk(a)];
                        script.extend(pend_steps(pa));
                        script.push(Step::Chunk(b - a));
                        script.extend(pend_steps(pb));
                        script.push(Step::Chunk(n - b));
                        f(Sched {
                            name: format!("cut({},{};p={},{})", a, b, pa, pb),
                            script,
                            spurious_at: None,
                        });
                    }
                }
            }
        }
    }
}

fn script_json(s: &[Step]) -> Json {
    Json::Array(
        s.iter()
            .map(|st| match st {
                Step::Chunk(n) => json!({"chunk": n}),
                Step::Interrupted => json!("interrupted"),
                Step::Error(k) => json!({"error": format!("{:?}", k)}),
                Step::ErrorShaped(k, sh) => json!({"error": format!("{:?}", k), "shape": sh}),
                Step::ErrorOnce(k) => json!({"error_once": format!("{:?}", k)}),
                Step::Pending { deferred } => json!({"pending": if *deferred { "deferred" } else { "immediate" }}),
                Step::Eof => json!("eof"),
            })
            .collect(),
    )
}

fn kind_from_str(s: &str) -> ErrorKind {
    for k in FAULT_KINDS.iter().chain([ErrorKind::WouldBlock, ErrorKind::Interrupted].iter()) {
        if format!("{:?}", k) == s {
            return *k;
        }
    }
    ErrorKind::Other
}

fn script_from_json(j: &Json) -> Vec<Step> {
    j.as_array()
        .map(|a| {
            a.iter()
                .map(|s| {
                    if let Some(n) = s.get("chunk").and_then(|n| n.as_u64()) {
                        Step::Chunk(n as usize)
                    } else if let (Some(k), Some(sh)) = (s.get("error").and_then(|k| k.as_str()), s.get("shape").and_then(|x| x.as_u64())) {
                        Step::ErrorShaped(kind_from_str(k), sh as u8)
                    } else if let Some(k) = s.get("error_once").and_then(|k| k.as_str()) {
                        Step::ErrorOnce(kind_from_str(k))
                    } else if let Some(k) = s.get("error").and_then(|k| k.as_str()) {
                        Step::Error(kind_from_str(k))
                    } else if let Some(p) = s.get("pending").and_then(|p| p.as_str()) {
                        Step::Pending { deferred: p == "deferred" }
                    } else if s.as_str() == Some("interrupted") {
                        Step::Interrupted
                    } else {
                        Step::Eof
                    }
                })
                .collect()
        })
        .unwrap_or_default()
}

// ------------------------------------------------------------------ C05

fn c05_one(name: &str, data: &Arc<Vec<u8>>, reference: &Observed, sched: &Sched, entry: Entry, st: &mut Stats) {
    st.evaluations += 1;
    st.traces += 1;
    let (res, mon) = run_async(data, sched.script.clone(), entry, sched.spurious_at);
    st.transitions += mon.calls.load(SeqCst) as u64;
    st.count("pending_answers_consumed", mon.pendings.load(SeqCst) as u64);
    let case = || json!({"input": name, "bytes": hex(data), "script": script_json(&sched.script), "spurious_at": sched.spurious_at, "entry": format!("{:?}", entry)});
    match res {
        AsyncRun::Done(obs, polls) => {
            st.states.insert(fnv(format!("{}:{}:{}", mon.delivered(), mon.pendings.load(SeqCst), polls).as_bytes()));
            st.outcome(&obs.outcome.class());
            if obs.outcome != reference.outcome {
                st.violate(
                    format!("async-differs:{}->{}", reference.outcome.class(), obs.outcome.class()),
                    format!(
                        "input {} ({}), schedule {}: blocking {} but async {}",
                        name,
                        hex(&data[..data.len().min(64)]),
                        sched.name,
                        reference.outcome.brief(),
                        obs.outcome.brief()
                    ),
                    case(),
                );
            }
        }
        AsyncRun::LostWakeup(polls) => {
            st.outcome("lost-wakeup");
            st.violate("lost-wakeup", format!("input {} schedule {}: Pending without a wake-up after {} polls", name, sched.name, polls), case());
        }
        AsyncRun::Horizon(polls) => {
            st.outcome("horizon");
            st.violate("no-progress", format!("input {} schedule {}: not finished after {} polls", name, sched.name, polls), case());
        }
    }
}

pub fn run_c05(ctx: &Ctx) -> ! {
    silence_panics();
    let mut rep = Report::new(
        ctx,
        "model_checking",
        "inputs: curated short messages (every outcome class: Ok with/without payload, InvalidTag, InvalidCollection, short-value InvalidData, UnexpectedEof at every primitive), the D-corpus, the tag x length grid, every byte string of <= 1 (2) bytes after a header, every token sequence of <= 3 (4) tokens, messages with 70 .. 33 000-octet names / texts / languages / member names made of multi-octet characters at every alignment (whole and cut inside a character); schedules: EVERY composition of every short message into chunks (2^(n-1)), uniform chunk sizes 1..n in three readiness modes, every 1-cut (and 2-cut) composition with every readiness pattern (0, 1 immediate, 1 deferred, 2 mixed) before each boundary and a deferred not-ready before the first byte, one spurious re-poll at every poll number; both entry points; the future is polled by a hand-written executor that owns every wake-up. every (offset, error kind) fault incl. WouldBlock and InvalidData on the short inputs in three delivery variants; Oracle: async outcome (content + payload | InvalidTag(t) | InvalidCollection | Io(kind)) == blocking outcome on the same input (and the same fault); no lost wake-up; bounded polls. states = distinct (bytes delivered, not-ready answers, polls) triples; transitions = poll_read calls answered; non-trivial = schedule with more than one chunk or a not-ready answer",
    );
    rep.assume("equal panics on both sides are not a C05 violation (C02 owns panics)");
    let tier = ctx.tier;
    let limit = tier.pick(17usize, 21usize);

    if let Some(p) = &ctx.replay {
        let (_, j) = vmc::report::load_replay(p);
        let data = Arc::new(unhex(j["bytes"].as_str().unwrap_or("")));
        let entry = if j["entry"].as_str() == Some("Parts") { Entry::Parts } else { Entry::Parse };
        let sched = Sched {
            name: "replay".into(),
            script: script_from_json(&j["script"]),
            spurious_at: j["spurious_at"].as_u64().map(|v| v as usize),
        };
        let (reference, _) = run_blocking(&data, vec![], entry);
        let mut st = Stats::new();
        c05_one("replay", &data, &reference, &sched, entry, &mut st);
        // determinism: same schedule twice
        let mut st2 = Stats::new();
        c05_one("replay", &data, &reference, &sched, entry, &mut st2);
        if st.violations.len() != st2.violations.len() {
            eprintln!("MACHINERY-ERROR replay is not deterministic");
            std::process::exit(2);
        }
        for v in &st.violations {
            println!("replay: class={} detail={}", v.class, v.detail);
        }
        rep.absorb(st);
        rep.finish();
    }

    // (1) all compositions of the short messages
    let shorts = short_messages(limit);
    let mut work: Vec<(usize, u64, u64)> = vec![]; // (message, mask_lo, mask_hi)
    for (i, (_, b)) in shorts.iter().enumerate() {
        let total = 1u64 << (b.len().saturating_sub(1));
        let step = 1u64 << 12;
        let mut lo = 0;
        while lo < total {
            work.push((i, lo, (lo + step).min(total)));
            lo += step;
        }
    }
    let refs: Vec<Observed> = shorts.iter().map(|(_, b)| run_blocking(&Arc::new(b.clone()), vec![], Entry::Parse).0).collect();
    let parts = par_slice(ctx.threads, &work, Stats::new, |st, _, &(i, lo, hi)| {
        let (name, bytes) = &shorts[i];
        let data = Arc::new(bytes.clone());
        for mask in lo..hi {
            let chunks = composition(bytes.len(), mask);
            let sched = Sched {
                name: format!("composition({:#x})", mask),
                script: chunks_to_script(&chunks),
                spurious_at: None,
            };
            if mask != 0 {
                st.nontrivial.insert(fnv(format!("{}:{}", i, mask).as_bytes()));
            }
            c05_one(name, &data, &refs[i], &sched, Entry::Parse, st);
        }
        st.sample(1, || json!({"input": name, "bytes": hex(bytes), "schedule": "every composition", "blocking_outcome": refs[i].outcome.brief()}));
    });
    let mut s = Stats::new();
    for p in parts {
        s.merge(p);
    }
    rep.section("all-compositions", s);

    // (1b) I/O errors: the same fault (offset, kind) must come back as the same error kind from both parsers.
    // WouldBlock is included on purpose: an async source that *returns* it as an error (instead of Pending)
    // must see it propagated like any other kind, as the blocking parser does.
    let mut kinds: Vec<ErrorKind> = FAULT_KINDS.to_vec();
    kinds.push(ErrorKind::WouldBlock);
    kinds.push(ErrorKind::InvalidData);
    let fault_inputs: Vec<(String, Vec<u8>)> = shorts.iter().cloned().chain(short_messages(64).into_iter().filter(|(_, b)| b.len() > limit)).chain(corpus().into_iter().filter(|(_, b)| b.len() <= 80)).collect();
    let parts = par_slice(ctx.threads, &fault_inputs, Stats::new, |st, _, (name, bytes)| {
        let data = Arc::new(bytes.clone());
        for k in 0..=bytes.len() {
            for &kind in &kinds {
                for variant in 0..3 {
                    // prefix whole / byte-at-a-time / a not-ready answer right before the fault
                    let mut script: Vec<Step> = match variant {
                        0 | 2 => {
                            if k > 0 {
                                vec![Step::Chunk(k)]
                            } else {
                                vec![]
                            }
                        }
                        _ => (0..k).map(|_| Step::Chunk(1)).collect(),
                    };
                    let blocking_script = {
                        let mut b = script.clone();
                        b.push(Step::Error(kind));
                        b
                    };
                    if variant == 2 {
                        script.push(Step::Pending { deferred: true });
                    }
                    script.push(Step::Error(kind));
                    for entry in [Entry::Parse, Entry::Parts] {
                        let (reference, _) = run_blocking(&data, blocking_script.clone(), entry);
                        let sched = Sched {
                            name: format!("fault({:?}@{},variant {})", kind, k, variant),
                            script: script.clone(),
                            spurious_at: None,
                        };
                        st.nontrivial.insert(fnv(format!("{}:{}", name, sched.name).as_bytes()));
                        c05_one(name, &data, &reference, &sched, entry, st);
                    }
                }
            }
        }
        st.sample(1, || json!({"input": name, "bytes": hex(bytes), "faults": "every offset x 9 error kinds (incl. WouldBlock, InvalidData) x 3 delivery variants"}));
    });
    let mut s = Stats::new();
    for p in parts {
        s.merge(p);
    }
    rep.section("io-error-equivalence", s);

    // (2) deviation-bounded families over the larger input set
    let mut inputs: Vec<(String, Vec<u8>)> = shorts.clone();
    inputs.extend(short_messages(64).into_iter().filter(|(_, b)| b.len() > limit));
    inputs.extend(corpus());
    inputs.extend(grid_messages());
    inputs.extend(tricky_text_wire(&MULTIBYTE_LENS));
    // every multiple of 1000 and of 1024 (and its neighbours) as the length of a name, a text value, a member name
    for pos in 0..3 {
        inputs.extend(ladder_wire(pos));
    }
    let nbytes = tier.pick(1u32, 2u32);
    for l in 0..=nbytes {
        for v in 0..(256u64.pow(l)) {
            let mut b = TOK_HEADER.to_vec();
            for i in 0..l {
                b.push((v >> (8 * (l - 1 - i))) as u8);
            }
            if l > 0 {
                inputs.push((format!("bytes[{:0w$x}]", v, w = 2 * l as usize), b));
            }
        }
    }
    let ktok = tier.pick(3, 4);
    for idx in 0..tok_space(ktok) {
        let seq = tok_seq(idx);
        inputs.push((format!("tok[{}]", tok_names(&seq)), tok_msg(&seq)));
    }
    let parts = par_slice(ctx.threads, &inputs, Stats::new, |st, _, (name, bytes)| {
        let data = Arc::new(bytes.clone());
        let n = bytes.len();
        for entry in [Entry::Parse, Entry::Parts] {
            let (reference, _) = run_blocking(&data, vec![], entry);
            st.count(&format!("inputs_{}", reference.outcome.class()), 1);
            let mut go = |s: Sched| {
                st.nontrivial.insert(fnv(format!("{}:{}", name, s.name).as_bytes()));
                c05_one(name, &data, &reference, &s, entry, st);
            };
            if n <= 600 {
                // uniform sizes: all for short inputs, a divisor ladder for long ones
                if n <= 64 {
                    fam_uniform(n, &mut go);
                } else {
                    let mut sizes: Vec<usize> = vec![1, 2, 3, 4, 5, 7, 8, 16, 255, 256, n - 1, n];
                    sizes.retain(|c| *c <= n && *c >= 1);
                    for c in sizes {
                        for mode in 0..3u8 {
                            let mut script = vec![];
                            let mut left = n;
                            while left > 0 {
                                script.extend(pend_steps(mode));
                                let k = c.min(left);
                                script.push(Step::Chunk(k));
                                left -= k;
                            }
                            go(Sched {
                                name: format!("uniform(c={},mode={})", c, mode),
                                script,
                                spurious_at: None,
                            });
                        }
                    }
                }
                if entry == Entry::Parse {
                    fam_cuts(n, n <= tier.pick(24, 48), &mut go);
                }
            } else {
                // very long inputs (maximal-length values): 1-cuts at the structurally interesting offsets
                for a in [1usize, 8, 9, 10, 11, 12, 13, 14, n / 2, n - 2, n - 1] {
                    if a < n {
                        go(Sched {
                            name: format!("cut({})", a),
                            script: vec![Step::Chunk(a), Step::Pending { deferred: true }, Step::Chunk(n - a)],
                            spurious_at: None,
                        });
                    }
                }
            }
            // one spurious re-poll at every poll number of the byte-at-a-time, deferred-wake schedule
            if n <= 40 && entry == Entry::Parse {
                let mut script = vec![];
                for _ in 0..n {
                    script.push(Step::Pending { deferred: true });
                    script.push(Step::Chunk(1));
                }
                for k in 1..=(2 * n + 2) {
                    go(Sched {
                        name: format!("spurious@{}", k),
                        script: script.clone(),
                        spurious_at: Some(k),
                    });
                }
            }
        }
        st.sample(1, || json!({"input": name, "bytes": hex(&bytes[..bytes.len().min(80)]), "schedules": "uniform 1..n x 3 readiness modes, all 1-/2-cuts x readiness patterns, spurious re-polls"}));
    });
    let mut s = Stats::new();
    for p in parts {
        s.merge(p);
    }
    rep.section("deviation-bounded-families", s);
    rep.set("full_composition_limit_bytes", json!(limit));
    rep.set("inputs", json!(inputs.len()));
    rep.finish()
}

// ------------------------------------------------------------------ C06

fn interrupt_variants(chunks: &[usize], f: &mut dyn FnMut(Vec<Step>, String)) {
    // no interrupt, then one Interrupted before each chunk, then two (adjacent and first+last)
    f(chunks_to_script(chunks), "plain".into());
    // every position for schedules of up to 128 chunks; a fixed ladder of positions beyond that (the
    // all-positions sweep is quadratic in the number of chunks)
    let n = chunks.len();
    let positions: Vec<usize> = if n <= 128 {
        (0..n).collect()
    } else {
        let mut p = vec![0, 1, 2, 3, 4, 5, 6, 7, n / 8, n / 4, n / 3, n / 2, 2 * n / 3, 3 * n / 4, n - 3, n - 2, n - 1];
        p.sort();
        p.dedup();
        p
    };
    for i in positions {
        let mut s = vec![];
        for (j, c) in chunks.iter().enumerate() {
            if j == i {
                s.push(Step::Interrupted);
            }
            s.push(Step::Chunk(*c));
        }
        f(s, format!("intr@{}", i));
    }
    if chunks.len() >= 2 {
        let mut s = vec![Step::Interrupted, Step::Interrupted];
        for c in chunks {
            s.push(Step::Chunk(*c));
        }
        f(s, "intr-twice-first".into());
        let mut s = vec![Step::Interrupted];
        for (j, c) in chunks.iter().enumerate() {
            if j == chunks.len() - 1 {
                s.push(Step::Interrupted);
            }
            s.push(Step::Chunk(*c));
        }
        f(s, "intr-first-and-last".into());
    }
}

struct C06Input {
    name: String,
    data: Arc<Vec<u8>>,
    head_len: usize,
    reference: Outcome,
}

fn c06_judge(inp: &C06Input, which: &str, entry: Entry, sched_name: &str, script: &[Step], obs: &Observed, st: &mut Stats) {
    let case = || json!({"input": inp.name, "bytes": if inp.data.len() <= 600 { json!(hex(&inp.data)) } else { json!({"head": hex(&inp.data[..inp.head_len.min(300)]), "len": inp.data.len()}) },
                        "head_len": inp.head_len, "script": script_json(script), "parser": which, "entry": format!("{:?}", entry)});
    let mut bad: Option<(String, String)> = None;
    if obs.outcome != inp.reference {
        bad = Some((
            format!("{}:result-depends-on-fragmentation", which),
            format!("{} {:?} schedule {}: {} instead of {}", which, entry, sched_name, obs.outcome.brief(), inp.reference.brief()),
        ));
    } else if obs.delivered_at_return != inp.head_len {
        bad = Some((
            format!("{}:consumed-{}", which, if obs.delivered_at_return > inp.head_len { "too-much" } else { "too-little" }),
            format!("{} {:?} schedule {}: {} bytes consumed when parse returned, header+attributes is {} bytes", which, entry, sched_name, obs.delivered_at_return, inp.head_len),
        ));
    } else if obs.max_end_requested_at_return > inp.head_len {
        bad = Some((
            format!("{}:read-ahead-requested", which),
            format!(
                "{} {:?} schedule {}: a read asked for bytes up to offset {} but the attributes end at {}",
                which, entry, sched_name, obs.max_end_requested_at_return, inp.head_len
            ),
        ));
    }
    match bad {
        None => st.outcome("exact"),
        Some((c, d)) => {
            st.outcome("inexact");
            st.violate(c, format!("input {}: {}", inp.name, d), case());
        }
    }
}

/// C06 (2): parse through one interface, read the document through the other
fn c06_cross(inp: &C06Input, script: &[Step], async_parse: bool, sched: &str, st: &mut Stats) {
    let n = inp.head_len;
    let tail = inp.data.len() - n;
    let want = &inp.data[n..];
    st.evaluations += 1;
    st.traces += 1;
    st.nontrivial.insert(fnv(format!("x:{}:{}:{}", inp.name, sched, async_parse).as_bytes()));
    let mon = Monitor::new();
    let src = ScriptSource::new(inp.data.clone(), script.to_vec(), mon.clone());
    let mon2 = mon.clone();
    let r = std::panic::catch_unwind(std::panic::AssertUnwindSafe(move || -> Result<Vec<u8>, String> {
        if async_parse {
            let fut = async move { AsyncIppParser::new(AsyncIppReader::new(src)).parse().await };
            let parsed = match run_manual(fut, &mon2, 4 * n + 64, None) {
                Run::Done { value, .. } => value.map_err(|e| format!("parse error {:?}", e))?,
                other => return Err(format!("parse did not finish: {}", match other { Run::LostWakeup { polls } => format!("lost wake-up after {} polls", polls), _ => "horizon".into() })),
            };
            let mut payload = parsed.into_payload();
            let mut out = vec![];
            let mut buf = [0u8; 4096];
            let mut calls = 0;
            loop {
                calls += 1;
                if calls > 2 * tail + 1000 {
                    return Err("no end-of-stream".into());
                }
                match Read::read(&mut payload, &mut buf) {
                    Ok(0) => break,
                    Ok(k) => out.extend_from_slice(&buf[..k]),
                    Err(e) if e.kind() == ErrorKind::Interrupted => continue,
                    Err(e) => return Err(format!("payload read error {:?} through std::io::Read", e.kind())),
                }
            }
            Ok(out)
        } else {
            let parsed = IppParser::new(IppReader::new(src)).parse().map_err(|e| format!("parse error {:?}", e))?;
            let mut payload = parsed.into_payload();
            let fut = async move {
                let mut out = vec![];
                match futures_util::io::AsyncReadExt::read_to_end(&mut payload, &mut out).await {
                    Ok(_) => Ok(out),
                    Err(e) => Err(format!("payload read error {:?} through AsyncRead", e.kind())),
                }
            };
            match run_manual(fut, &mon2, 4 * tail + 1000, None) {
                Run::Done { value, .. } => value,
                Run::LostWakeup { polls } => Err(format!("lost wake-up after {} polls", polls)),
                Run::Horizon { polls } => Err(format!("not finished after {} polls", polls)),
            }
        }
    }));
    st.transitions += mon.calls.load(SeqCst) as u64;
    let which = if async_parse { "async-parsed-read-blocking" } else { "blocking-parsed-read-async" };
    let case = || json!({"input": inp.name, "head_len": n, "payload_len": tail, "script": script_json(script), "mode": which, "bytes": if inp.data.len() <= 600 { json!(hex(&inp.data)) } else { json!({"head": hex(&inp.data[..inp.head_len.min(300)]), "len": inp.data.len()}) }});
    match r {
        Ok(Ok(out)) if out == want => st.outcome("document-identical"),
        Ok(Ok(out)) => {
            st.outcome("document-differs");
            st.violate(format!("{}:document-differs", which), format!("input {} schedule {}: {} payload bytes instead of {}", inp.name, sched, out.len(), tail), case());
        }
        Ok(Err(e)) => {
            st.outcome("document-lost");
            st.violate(format!("{}:document-lost", which), format!("input {} schedule {}: {}", inp.name, sched, e), case());
        }
        Err(p) => {
            st.outcome("panic");
            st.violate(format!("{}:panic", which), format!("input {} schedule {}: panic {}", inp.name, sched, panic_text(p)), case());
        }
    }
}

/// C06 (2b): parse through the async interface, read the document with VECTORED async reads (two buffers per call)
/// while the source keeps answering not-ready between small chunks
fn c06_vectored(inp: &C06Input, script: &[Step], sched: &str, st: &mut Stats) {
    let n = inp.head_len;
    let tail = inp.data.len() - n;
    let want = inp.data[n..].to_vec();
    st.evaluations += 1;
    st.traces += 1;
    st.nontrivial.insert(fnv(format!("xv:{}:{}", inp.name, sched).as_bytes()));
    let mon = Monitor::new();
    let src = ScriptSource::new(inp.data.clone(), script.to_vec(), mon.clone());
    let mon2 = mon.clone();
    let r = std::panic::catch_unwind(std::panic::AssertUnwindSafe(move || -> Result<Vec<u8>, String> {
        let fut = async move {
            let parsed = AsyncIppParser::new(AsyncIppReader::new(src)).parse().await.map_err(|e| format!("parse error {:?}", e))?;
            let mut payload = parsed.into_payload();
            let mut out = vec![];
            let (mut a, mut b) = ([0u8; 3], [0u8; 5]);
            for _ in 0..(4 * tail + 1000) {
                let mut slices = [std::io::IoSliceMut::new(&mut a), std::io::IoSliceMut::new(&mut b)];
                match futures_util::io::AsyncReadExt::read_vectored(&mut payload, &mut slices).await {
                    Ok(0) => return Ok(out),
                    Ok(k) if k > 8 => return Err("read_vectored reported more than the buffers hold".to_string()),
                    Ok(k) => {
                        out.extend_from_slice(&a[..k.min(3)]);
                        if k > 3 {
                            out.extend_from_slice(&b[..k - 3]);
                        }
                    }
                    Err(e) => return Err(format!("payload read error {:?} through vectored AsyncRead", e.kind())),
                }
            }
            Err("no end-of-stream".to_string())
        };
        match run_manual(fut, &mon2, 16 * (n + tail) + 4000, None) {
            Run::Done { value, .. } => value,
            Run::LostWakeup { polls } => Err(format!("lost wake-up after {} polls", polls)),
            Run::Horizon { polls } => Err(format!("not finished after {} polls", polls)),
        }
    }));
    st.transitions += mon.calls.load(SeqCst) as u64;
    let which = "async-parsed-read-async-vectored";
    let case = json!({"input": inp.name, "head_len": n, "payload_len": tail, "script": script_json(script), "mode": which, "bytes": if inp.data.len() <= 600 { json!(hex(&inp.data)) } else { json!({"head": hex(&inp.data[..inp.head_len.min(300)]), "len": inp.data.len()}) }});
    match r {
        Ok(Ok(out)) if out == want => st.outcome("document-identical"),
        Ok(Ok(out)) => {
            st.outcome("document-differs");
            st.violate(format!("{}:document-differs", which), format!("input {} schedule {}: {} payload bytes instead of {}", inp.name, sched, out.len(), tail), case);
        }
        Ok(Err(e)) => {
            st.outcome("document-lost");
            st.violate(format!("{}:document-lost", which), format!("input {} schedule {}: {}", inp.name, sched, e), case);
        }
        Err(p) => st.violate(format!("{}:panic", which), format!("input {} schedule {}: panic {}", inp.name, sched, panic_text(p)), case),
    }
}

fn c06_schedules(n: usize, two_cut_limit: usize, one_cut_limit: usize, f: &mut dyn FnMut(Vec<usize>, String)) {
    f(vec![n], "whole".into());
    let mut sizes: Vec<usize> = if n <= 8192 { (1..=n.min(16)).collect() } else { vec![1, 7] };
    sizes.extend([32usize, 64, 255, 256, 1000, 4096, 4097].iter().filter(|c| **c < n));
    for c in sizes {
        let mut v = vec![];
        let mut left = n;
        while left > 0 {
            let k = c.min(left);
            v.push(k);
            left -= k;
        }
        f(v, format!("uniform({})", c));
    }
    if n <= one_cut_limit {
        for a in 1..n {
            f(vec![a, n - a], format!("cut({})", a));
        }
    } else {
        // long messages: cuts around every token boundary instead of every offset
        for a in [1usize, 2, 7, 8, 9, 10, 11, 12, n / 2, n - 2, n - 1] {
            if a >= 1 && a < n {
                f(vec![a, n - a], format!("cut({})", a));
            }
        }
    }
    if n <= two_cut_limit {
        for a in 1..n {
            for b in a + 1..n {
                f(vec![a, b - a, n - b], format!("cut({},{})", a, b));
            }
        }
    }
}

pub fn run_c06(ctx: &Ctx) -> ! {
    silence_panics();
    let mut rep = Report::new(
        ctx,
        "model_checking",
        "well-formed messages (D-corpus + curated short ones) x payload {none, [03], IPP look-alike, 70 000 patterned bytes, 1 MiB + 64 KiB + 1 for two inputs} x read fragmentations of the header+attributes section (whole = read-ahead possible; uniform sizes 1..64; every 1-cut; every 2-cut for short messages; EVERY composition for messages <= 16 (21) bytes) x for the blocking reader Err(Interrupted) before each chunk and twice x for the async reader a not-ready answer before each chunk x entry points parse / parse_parts x both parsers; plus the document of a parsed message taken as IppPayload and read through the OTHER interface (async-parsed -> std::io::Read, blocking-parsed -> AsyncRead) and through vectored async reads while the source keeps fragmenting and answering not-ready / Interrupted after the end tag; plus documents of 1 GiB + 4097 (thorough: and 4 GiB + 4097) bytes streamed from a pattern generator and verified on the fly. A monitor inside the scripted source records bytes delivered and the furthest offset any read ever ASKED for at the moment parse returns. Oracle: delivered == |header+attributes| exactly, nothing requested beyond it, payload read afterwards is byte-identical, content equals the whole-delivery result. states = distinct (input, number of chunks, interrupts / readiness mode) triples; transitions = read calls answered; non-trivial = more than one chunk",
    );
    let tier = ctx.tier;
    let limit = tier.pick(16usize, 21usize);

    let mut inputs: Vec<C06Input> = vec![];
    let mut msgs: Vec<(String, Vec<u8>)> = short_messages(64);
    msgs.extend(corpus());
    // long names / values: readers that grow their buffer in steps only show themselves here
    for (what, len) in [("value", 4097usize), ("value", 5000), ("value", 65535), ("name", 5000)] {
        let mut m = r1::Msg::new(0x0101, 0, 1);
        let (name, val) = if what == "value" { (b"v".to_vec(), vec![b'q'; len]) } else { (vec![b'n'; len], b"x".to_vec()) };
        m.groups.push(r1::Group {
            tag: r1::TAG_OPERATION,
            attrs: vec![
                r1::Attr { name, values: vec![r1::Val::Str(r1::T_TEXT, val)] },
                r1::Attr { name: b"after".to_vec(), values: vec![r1::Val::Int(7)] },
            ],
        });
        msgs.push((format!("long-{}-{}", what, len), r1::encode(&m)));
    }
    for pos in 0..2 {
        msgs.extend(ladder_wire(pos));
    }
    for (name, bytes) in msgs {
        let m = match r1::decode(&bytes) {
            Ok(m) => m,
            Err(_) => continue,
        };
        let head_len = bytes.len() - m.data.len();
        let head = bytes[..head_len].to_vec();
        let pk: &[u8] = if name == "op-int" || name == "gpa-response" {
            &[0, 1, 2, 3, 4]
        } else if head_len > 64 {
            &[0, 2]
        } else {
            &[0, 1, 2, 3]
        };
        for &k in pk {
            let payload = crate::space::payload_of(k, ctx.seed);
            let mut data = head.clone();
            data.extend_from_slice(&payload);
            let data = Arc::new(data);
            let reference = parse_blocking(&data);
            inputs.push(C06Input {
                name: format!("{}+payload{}", name, k),
                data,
                head_len,
                reference,
            });
        }
    }

    if let Some(p) = &ctx.replay {
        let (_, j) = vmc::report::load_replay(p);
        let bytes = match j["bytes"].as_str() {
            Some(s) => unhex(s),
            None => {
                println!("replay: big-payload case; re-run the check to reproduce");
                std::process::exit(0)
            }
        };
        let head_len = j["head_len"].as_u64().unwrap_or(0) as usize;
        let data = Arc::new(bytes);
        let inp = C06Input {
            name: "replay".into(),
            reference: parse_blocking(&data),
            data,
            head_len,
        };
        let script = script_from_json(&j["script"]);
        let entry = if j["entry"].as_str() == Some("Parts") { Entry::Parts } else { Entry::Parse };
        let mut st = Stats::new();
        st.evaluations = 1;
        if let Some(mode) = j["mode"].as_str() {
            st.evaluations = 0;
            if mode == "async-parsed-read-async-vectored" {
                c06_vectored(&inp, &script, "replay", &mut st);
            } else {
                c06_cross(&inp, &script, mode == "async-parsed-read-blocking", "replay", &mut st);
            }
        } else if j["parser"].as_str() == Some("async") {
            if let (AsyncRun::Done(obs, _), _) = run_async(&inp.data, script.clone(), entry, None) {
                c06_judge(&inp, "async", entry, "replay", &script, &obs, &mut st);
            }
        } else {
            let (obs, _) = run_blocking(&inp.data, script.clone(), entry);
            c06_judge(&inp, "blocking", entry, "replay", &script, &obs, &mut st);
        }
        for v in &st.violations {
            println!("replay: class={} detail={}", v.class, v.detail);
        }
        rep.absorb(st);
        rep.finish();
    }

    let parts = par_slice(ctx.threads, &inputs, Stats::new, |st, inp_idx, inp| {
        if !matches!(inp.reference, Outcome::Ok(_)) {
            eprintln!("MACHINERY-ERROR C06 input {} is not accepted by the parser on whole delivery: {}", inp.name, inp.reference.brief());
            std::process::exit(2);
        }
        let n = inp.head_len;
        let tail = inp.data.len() - n;
        let light = std::cell::Cell::new(false);
        let mut run_sched = |chunks: Vec<usize>, sname: String| {
            // the payload part is always delivered as one further chunk (so that read-ahead is possible)
            let mut full = chunks.clone();
            if tail > 0 {
                // merge the payload into the last head chunk for the "whole" schedule, else separate
                if sname == "whole" {
                    *full.last_mut().unwrap() += tail;
                } else {
                    full.push(tail);
                }
            }
            for entry in [Entry::Parse, Entry::Parts] {
                if light.get() && entry == Entry::Parts {
                    continue;
                }
                let with_interrupts = entry == Entry::Parse && !light.get();
                interrupt_variants(&full, &mut |script, iname| {
                    if !with_interrupts && iname != "plain" {
                        return;
                    }
                    st.evaluations += 1;
                    st.traces += 1;
                    let (obs, mon) = run_blocking(&inp.data, script.clone(), entry);
                    st.transitions += mon.calls.load(SeqCst) as u64;
                    st.count("interrupts_consumed", mon.interrupts.load(SeqCst) as u64);
                    let key = ((inp_idx as u64) << 32) | ((full.len() as u64) << 8) | (mon.interrupts.load(SeqCst) as u64);
                    st.states.insert(key);
                    if full.len() > 1 {
                        st.nontrivial.insert(key);
                    }
                    c06_judge(inp, "blocking", entry, &format!("{}/{}", sname, iname), &script, &obs, st);
                });
                // async: plain, and a not-ready answer (alternating immediate / deferred) before each chunk
                for mode in 0..(if light.get() { 1 } else { 2 }) {
                    let mut script = vec![];
                    for (i, c) in full.iter().enumerate() {
                        if mode == 1 {
                            script.push(Step::Pending { deferred: i % 2 == 0 });
                        }
                        script.push(Step::Chunk(*c));
                    }
                    st.evaluations += 1;
                    st.traces += 1;
                    let (res, mon) = run_async(&inp.data, script.clone(), entry, None);
                    st.transitions += mon.calls.load(SeqCst) as u64;
                    st.states.insert(((inp_idx as u64) << 32) | ((full.len() as u64) << 8) | 0x80 | mode as u64);
                    match res {
                        AsyncRun::Done(obs, _) => c06_judge(inp, "async", entry, &format!("{}/pend{}", sname, mode), &script, &obs, st),
                        other => st.violate("async:hang", format!("input {} schedule {}: {:?}", inp.name, sname, other), json!({"input": inp.name})),
                    }
                }
            }
        };
        c06_schedules(n, tier.pick(20, 64), tier.pick(120, 1200), &mut run_sched);
        if n <= limit {
            // every composition: plain delivery, both parsers, entry point parse
            light.set(true);
            for mask in 0..(1u64 << (n - 1)) {
                run_sched(composition(n, mask), format!("composition({:#x})", mask));
            }
        }
        st.sample(1, || json!({"input": inp.name, "head_len": n, "payload_len": tail}));
    });
    let mut s = Stats::new();
    for p in parts {
        s.merge(p);
    }
    rep.section("fragmentation-x-interrupts-x-readiness", s);

    // (2) the document of a parsed message, taken as IppPayload and read through the OTHER interface than the one
    // it was parsed with (async-parsed -> std::io::Read; blocking-parsed -> AsyncRead), while the source keeps
    // fragmenting and answering not-ready (with an immediate wake-up: the blocking side has no executor that could
    // deliver a deferred one) after the end-of-attributes tag
    let cross: Vec<&C06Input> = inputs.iter().filter(|i| i.data.len() > i.head_len && i.data.len() <= 80_000 && matches!(i.reference, Outcome::Ok(_))).collect();
    let parts = par_slice(ctx.threads, &cross, Stats::new, |st, _, inp| {
        let n = inp.head_len;
        let tail = inp.data.len() - n;
        for sched in 0..4u8 {
            for async_parse in [true, false] {
                let gap = |v: &mut Vec<Step>| v.push(if async_parse { Step::Pending { deferred: false } } else { Step::Interrupted });
                let mut script: Vec<Step> = vec![];
                match sched {
                    0 => {}
                    1 => {
                        script.push(Step::Chunk(n));
                        gap(&mut script);
                        script.push(Step::Chunk(tail));
                    }
                    2 => {
                        script.push(Step::Chunk(n));
                        let mut left = tail;
                        let mut k = 0;
                        while left > 0 && k < 64 {
                            gap(&mut script);
                            let c = 3.min(left);
                            script.push(Step::Chunk(c));
                            left -= c;
                            k += 1;
                        }
                        gap(&mut script);
                    }
                    _ => {
                        script.push(Step::Chunk(n - 1));
                        gap(&mut script);
                        script.push(Step::Chunk(1));
                        gap(&mut script);
                        gap(&mut script);
                        script.push(Step::Chunk(1));
                        gap(&mut script);
                    }
                }
                c06_cross(inp, &script, async_parse, &format!("{}", sched), st);
                if async_parse {
                    // the same schedule, and one with deferred wake-ups, through vectored async reads
                    c06_vectored(inp, &script, &format!("{}", sched), st);
                    let deferred: Vec<Step> = script.iter().map(|x| if matches!(x, Step::Pending { .. }) { Step::Pending { deferred: true } } else { *x }).collect();
                    c06_vectored(inp, &deferred, &format!("{}-deferred", sched), st);
                }
            }
        }
    });
    let mut s = Stats::new();
    for p in parts {
        s.merge(p);
    }
    rep.section("payload-through-the-other-interface", s);

    // (3) documents far beyond any round size: streamed from a pattern generator and verified on the fly (nothing is
    // stored), through parse()/into_payload and parse_parts()/into_inner, both parsers. Whatever cap, counter width or
    // adaptor sits between the source and the payload shows as a short or altered document.
    let huge: &[u64] = tier.pick(&[(1u64 << 30) + 4097][..], &[(1u64 << 30) + 4097, (1u64 << 32) + 4097][..]);
    let mut jobs: Vec<(u64, bool, Entry)> = vec![];
    for &len in huge {
        for async_parse in [false, true] {
            for entry in [Entry::Parse, Entry::Parts] {
                jobs.push((len, async_parse, entry));
            }
        }
    }
    let head = {
        let mut m = r1::Msg::new(0x0101, 0x0002, 9);
        m.groups.push(r1::Group { tag: r1::TAG_OPERATION, attrs: vec![r1::Attr { name: b"attributes-charset".to_vec(), values: vec![r1::Val::Str(r1::T_CHARSET, b"utf-8".to_vec())] }] });
        Arc::new(r1::encode(&m))
    };
    let parts = par_slice(ctx.threads, &jobs, Stats::new, |st, _, (len, async_parse, entry)| {
        st.evaluations += 1;
        st.traces += 1;
        st.nontrivial.insert(fnv(format!("huge:{}:{}:{:?}", len, async_parse, entry).as_bytes()));
        let head2 = head.clone();
        let (len, async_parse, entry) = (*len, *async_parse, *entry);
        let r = std::panic::catch_unwind(std::panic::AssertUnwindSafe(move || -> Result<PatternCheck, String> {
            let src = PatternSource::new(head2, len);
            let mut chk = PatternCheck::new();
            let mut buf = vec![0u8; 1 << 16];
            if async_parse {
                let mon = Monitor::new();
                let fut = async move {
                    let parser = AsyncIppParser::new(AsyncIppReader::new(src));
                    let mut rest: Box<dyn futures_util::io::AsyncRead + Unpin> = match entry {
                        Entry::Parse => Box::new(parser.parse().await.map_err(|e| format!("parse error {:?}", e))?.into_payload()),
                        Entry::Parts => Box::new(parser.parse_parts().await.map_err(|e| format!("parse error {:?}", e))?.2.into_inner()),
                    };
                    loop {
                        match rest.read(&mut buf).await {
                            Ok(0) => break,
                            Ok(n) => chk.feed(&buf[..n]),
                            Err(e) => return Err(format!("payload read error {:?} after {} bytes", e.kind(), chk.received)),
                        }
                    }
                    Ok(chk)
                };
                match run_manual(fut, &mon, 64, None) {
                    Run::Done { value, .. } => value,
                    _ => Err("the future did not finish although the source is always ready".into()),
                }
            } else {
                let parser = IppParser::new(IppReader::new(src));
                let mut rest: Box<dyn Read> = match entry {
                    Entry::Parse => Box::new(parser.parse().map_err(|e| format!("parse error {:?}", e))?.into_payload()),
                    Entry::Parts => Box::new(parser.parse_parts().map_err(|e| format!("parse error {:?}", e))?.2.into_inner()),
                };
                loop {
                    match rest.read(&mut buf) {
                        Ok(0) => break,
                        Ok(n) => chk.feed(&buf[..n]),
                        Err(e) if e.kind() == ErrorKind::Interrupted => continue,
                        Err(e) => return Err(format!("payload read error {:?} after {} bytes", e.kind(), chk.received)),
                    }
                }
                Ok(chk)
            }
        }));
        st.transitions += len / (1 << 16);
        let which = if async_parse { "async" } else { "blocking" };
        let case = json!({"huge_payload": len, "parser": which, "entry": format!("{:?}", entry)});
        match r {
            Ok(Ok(chk)) if chk.received == len && chk.first_mismatch.is_none() => st.outcome("huge-document-identical"),
            Ok(Ok(chk)) => {
                st.outcome("huge-document-differs");
                st.violate(
                    format!("{}:huge-document-{}", which, if chk.first_mismatch.is_some() { "corrupt" } else if chk.received < len { "short" } else { "long" }),
                    format!("{} {:?}: document of {} bytes came back as {} bytes (first altered byte: {:?})", which, entry, len, chk.received, chk.first_mismatch),
                    case,
                );
            }
            Ok(Err(e)) => {
                st.outcome("huge-document-lost");
                st.violate(format!("{}:huge-document-lost", which), format!("{} {:?}: {}", which, entry, e), case);
            }
            Err(p) => st.violate(format!("{}:panic", which), panic_text(p), case),
        }
    });
    let mut s = Stats::new();
    for p in parts {
        s.merge(p);
    }
    rep.section("huge-documents", s);
    rep.set("inputs", json!(inputs.len()));
    rep.set("full_composition_limit_bytes", json!(limit));
    rep.finish()
}

// ------------------------------------------------------------------ C07

pub fn run_c07(ctx: &Ctx) -> ! {
    silence_panics();
    let mut rep = Report::new(
        ctx,
        "fault_enumeration",
        "with a logger installed that evaluates every log statement (as in an application with logging enabled): for every well-formed message of the D-corpus (+ curated short ones, + messages whose names / texts / languages / member names are 70 .. 300 octets of multi-octet characters at every alignment; thorough: + the bounded grammar-tree corpus), both parsers, both entry points: EVERY cut 0 <= k < |header+attributes| (source reports end-of-stream after k bytes) and EVERY single fault (offset, kind) with kind in {ConnectionReset, ConnectionAborted, TimedOut, BrokenPipe, UnexpectedEof, PermissionDenied, Other, + WouldBlock for the blocking reader}, in two delivery variants (prefix in one chunk / one byte at a time). Oracle: Err(IoError(UnexpectedEof)) for a cut, Err(IoError(injected kind)) for a fault; never Ok, never a partial result, never a panic. distinct = (message, offset, fault, variant, parser, entry); non-trivial = offset > 0",
    );
    let tier = ctx.tier;
    let mut msgs: Vec<(String, Vec<u8>)> = vec![];
    for (name, bytes) in short_messages(64).into_iter().chain(corpus()).chain(tricky_text_wire(&[70, 255, 300])) {
        if let Ok(m) = r1::decode(&bytes) {
            let head = bytes[..bytes.len() - m.data.len()].to_vec();
            if head.len() <= 1200 {
                msgs.push((name, head));
            }
        }
    }
    if tier == Tier::Thorough {
        let b = SkelBounds {
            max_groups: 2,
            max_attrs: 2,
            max_set: 3,
            max_members: 2,
            max_depth: 3,
            budget: 4,
            op_first: false,
            header: Some(0),
        };
        for_each_skel(b, |c, m| msgs.push((format!("tree{:?}", c), r1::encode(&m))));
    }

    let judge = |which: &str, entry: Entry, name: &str, data: &[u8], script: &[Step], expect: ErrorKind, got: &Outcome, st: &mut Stats, what: &str| {
        let case = || json!({"input": name, "bytes": hex(data), "script": script_json(script), "parser": which, "entry": format!("{:?}", entry), "expect": format!("{:?}", expect)});
        match got {
            Outcome::Io(k) if *k == expect => st.outcome("error-propagated"),
            Outcome::Io(k) => {
                st.outcome("wrong-kind");
                st.violate(
                    format!("{}:wrong-error-kind", which),
                    format!("{} {:?} on {} with {}: error kind {:?} instead of {:?}", which, entry, name, what, k, expect),
                    case(),
                );
            }
            Outcome::Ok(_) | Outcome::OutOfModel(_) => {
                st.outcome("accepted");
                st.violate(
                    format!("{}:accepted-incomplete", which),
                    format!("{} {:?} on {} with {}: returned a result ({})", which, entry, name, what, got.brief()),
                    case(),
                );
            }
            Outcome::Panic(p) => {
                st.outcome("panic");
                st.violate(format!("{}:panic", which), format!("{} {:?} on {} with {}: panic {}", which, entry, name, what, p), case());
            }
            other => {
                st.outcome("other-error");
                st.violate(
                    format!("{}:not-an-io-error", which),
                    format!("{} {:?} on {} with {}: {} instead of an I/O error", which, entry, name, what, other.brief()),
                    case(),
                );
            }
        }
    };

    if let Some(p) = &ctx.replay {
        let (_, j) = vmc::report::load_replay(p);
        let data = Arc::new(unhex(j["bytes"].as_str().unwrap_or("")));
        let script = script_from_json(&j["script"]);
        let entry = if j["entry"].as_str() == Some("Parts") { Entry::Parts } else { Entry::Parse };
        let expect = kind_from_str(j["expect"].as_str().unwrap_or("UnexpectedEof"));
        let mut st = Stats::new();
        st.evaluations = 1;
        let got = if j["parser"].as_str() == Some("async") {
            match run_async(&data, script.clone(), entry, None).0 {
                AsyncRun::Done(o, _) => o.outcome,
                other => Outcome::OutOfModel(format!("{:?}", other)),
            }
        } else {
            run_blocking(&data, script.clone(), entry).0.outcome
        };
        judge(j["parser"].as_str().unwrap_or("blocking"), entry, "replay", &data, &script, expect, &got, &mut st, "replayed script");
        for v in &st.violations {
            println!("replay: class={} detail={}", v.class, v.detail);
        }
        rep.absorb(st);
        rep.finish();
    }

    let parts = par_slice(ctx.threads, &msgs, Stats::new, |st, _, (name, head)| {
        let n = head.len();
        // sanity: the complete head is accepted
        if !matches!(parse_blocking(head), Outcome::Ok(_)) {
            eprintln!("MACHINERY-ERROR C07 corpus message {} is not accepted whole", name);
            std::process::exit(2);
        }
        let mut kinds: Vec<ErrorKind> = FAULT_KINDS.to_vec();
        kinds.push(ErrorKind::WouldBlock);
        for k in 0..n {
            // --- cut after k bytes
            let data = Arc::new(head[..k].to_vec());
            for variant in 0..2 {
                let script: Vec<Step> = if variant == 0 { vec![] } else { (0..k).map(|_| Step::Chunk(1)).collect() };
                for entry in [Entry::Parse, Entry::Parts] {
                    st.evaluations += 2;
                    st.traces += 2;
                    st.transitions += 2;
                    st.states_extra += 1;
                    if k > 0 {
                        st.nontrivial_extra += 1;
                    }
                    let (obs, _) = run_blocking(&data, script.clone(), entry);
                    judge("blocking", entry, name, &data, &script, ErrorKind::UnexpectedEof, &obs.outcome, st, &format!("cut after {} of {} bytes", k, n));
                    match run_async(&data, script.clone(), entry, None).0 {
                        AsyncRun::Done(obs, _) => judge("async", entry, name, &data, &script, ErrorKind::UnexpectedEof, &obs.outcome, st, &format!("cut after {} of {} bytes", k, n)),
                        other => st.violate("async:hang", format!("{} cut {}: {:?}", name, k, other), json!({"input": name})),
                    }
                }
            }
            // --- fault at offset k (the full message is behind it: a parser that swallowed the error would succeed)
            let data = Arc::new(head.clone());
            for &kind in &kinds {
                for variant in 0..2 {
                    let script: Vec<Step> = if variant == 0 {
                        if k > 0 {
                            vec![Step::Chunk(k)]
                        } else {
                            vec![]
                        }
                    } else {
                        (0..k).map(|_| Step::Chunk(1)).collect()
                    };
                  for shape in [1u8, 0, 2, 3] {
                    let mut script = script.clone();
                    // shape 1 = kind with a text payload; 0 = bare kind; 2 = payload wrapping ANOTHER io::Error of a
                    // different kind; 3 = raw OS error. The kind to be reported is the outer one in every shape.
                    script.push(if shape == 1 { Step::Error(kind) } else { Step::ErrorShaped(kind, shape) });
                    if shape != 1 && (variant == 1 || kind == ErrorKind::WouldBlock) {
                        continue;
                    }
                    for entry in [Entry::Parse, Entry::Parts] {
                        st.states_extra += 1;
                        if k > 0 {
                            st.nontrivial_extra += 1;
                        }
                        st.evaluations += 1;
                        st.traces += 1;
                        st.transitions += 1;
                        let (obs, mon) = run_blocking(&data, script.clone(), entry);
                        st.count("faults_consumed", mon.errors.load(SeqCst).min(1) as u64);
                        judge("blocking", entry, name, &data, &script, kind, &obs.outcome, st, &format!("{:?} at offset {} of {}", kind, k, n));
                        if kind != ErrorKind::WouldBlock {
                            st.evaluations += 1;
                            st.traces += 1;
                            match run_async(&data, script.clone(), entry, None).0 {
                                AsyncRun::Done(obs, _) => judge("async", entry, name, &data, &script, kind, &obs.outcome, st, &format!("{:?} at offset {} of {}", kind, k, n)),
                                other => st.violate("async:hang", format!("{} fault at {}: {:?}", name, k, other), json!({"input": name})),
                            }
                        }
                    }
                  }
                }
            }
        }
        st.sample(1, || json!({"input": name, "bytes": hex(&head[..head.len().min(80)]), "cuts": n, "faults": n * kinds.len() * 2}));
    });
    let mut s = Stats::new();
    for p in parts {
        s.merge(p);
    }
    rep.absorb(s);
    rep.set("messages", json!(msgs.len()));
    rep.finish()
}
