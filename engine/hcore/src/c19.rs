//! C19 — attribute container = ordered model R6 (explicit-state BFS to a fixpoint, E2) and value
//! traversal = three-line model.

use crate::adapter::*;
use ipp::prelude::*;
use std::collections::{BTreeMap, HashMap};
use vmc::gen::{for_each_skel, SkelBounds};
use vmc::r1::{self, Attr, Group, Msg, Val};
use vmc::report::{Ctx, Report, Stats};
use vmc::{fnv, json, Json};

const KINDS: [u8; 4] = [r1::TAG_OPERATION, r1::TAG_JOB, r1::TAG_PRINTER, r1::TAG_UNSUPPORTED_GROUP];

/// R6 — the ordered container model
type Model = Vec<(u8, BTreeMap<String, i32>)>;

#[derive(Clone, Copy, Debug, PartialEq, Eq, Hash)]
struct Op {
    kind: u8,
    name: u8,
    value: i32,
}

fn model_add(m: &mut Model, op: Op) {
    let name = (op.name as char).to_string();
    match m.iter_mut().find(|g| g.0 == op.kind) {
        Some(g) => {
            g.1.insert(name, op.value);
        }
        None => {
            let mut map = BTreeMap::new();
            map.insert(name, op.value);
            m.push((op.kind, map));
        }
    }
}

fn real_add(a: &mut IppAttributes, op: Op) {
    a.add(group_tag(op.kind), IppAttribute::new((op.name as char).to_string(), IppValue::Integer(op.value)));
}

fn canon_groups<'a>(it: impl Iterator<Item = &'a IppAttributeGroup>) -> Result<Model, String> {
    let mut out = vec![];
    for g in it {
        let mut m = BTreeMap::new();
        for (k, a) in g.attributes() {
            if k != a.name() {
                return Err(format!("key {:?} != attribute name {:?}", k, a.name()));
            }
            let v = a.value().as_integer().ok_or_else(|| format!("attribute {:?} is not an integer: {:?}", k, a.value()))?;
            m.insert(k.clone(), *v);
        }
        out.push((g.tag() as u8, m));
    }
    Ok(out)
}

/// initial state: a message as the parser produces it (groups given as (kind, has attribute "a"=1))
#[derive(Clone, Debug)]
struct Init {
    groups: Vec<(u8, bool)>,
}

impl Init {
    fn model(&self) -> Model {
        self.groups
            .iter()
            .map(|(k, has)| {
                let mut m = BTreeMap::new();
                if *has {
                    m.insert("a".to_string(), 1);
                }
                (*k, m)
            })
            .collect()
    }
    /// fresh real container: parse R1-encoded bytes (empty init = `IppAttributes::new()`)
    fn real(&self) -> IppAttributes {
        if self.groups.is_empty() {
            return IppAttributes::new();
        }
        let mut m = Msg::new(0x0101, 0, 1);
        for (k, has) in &self.groups {
            m.groups.push(Group {
                tag: *k,
                attrs: if *has {
                    vec![Attr {
                        name: b"a".to_vec(),
                        values: vec![Val::Int(1)],
                    }]
                } else {
                    vec![]
                },
            });
        }
        let bytes = r1::encode(&m);
        let (_, attrs, _) = ipp::parser::IppParser::new(ipp::reader::IppReader::new(std::io::Cursor::new(bytes)))
            .parse_parts()
            .expect("parser accepts the initial message");
        attrs
    }
}

fn build(init: &Init, hist: &[Op]) -> IppAttributes {
    let mut a = init.real();
    for op in hist {
        real_add(&mut a, *op);
    }
    a
}

fn check_state(real: &IppAttributes, model: &Model) -> Result<(), (String, String)> {
    let got = canon_groups(real.groups().iter()).map_err(|e| ("malformed".to_string(), e))?;
    if &got != model {
        return Err(("groups-differ".into(), format!("container {:?} vs model {:?}", got, model)));
    }
    for k in KINDS {
        let got = canon_groups(real.groups_of(group_tag(k))).map_err(|e| ("malformed".to_string(), e))?;
        let want: Model = model.iter().filter(|g| g.0 == k).cloned().collect();
        if got != want {
            return Err(("groups_of-differs".into(), format!("groups_of({:#04x}) = {:?}, model says {:?}", k, got, want)));
        }
    }
    let into = canon_groups(real.clone().into_groups().iter()).map_err(|e| ("malformed".to_string(), e))?;
    if &into != model {
        return Err(("into_groups-differs".into(), format!("into_groups {:?} vs model {:?}", into, model)));
    }
    Ok(())
}

fn key(m: &Model) -> u64 {
    fnv(format!("{:?}", m).as_bytes())
}

/// BFS to a fixpoint from one initial state; every state is rebuilt as a fresh real object from its
/// history; every transition applies the operation to the real object and to the model.
fn bfs(init: &Init, ops: &[Op], threads: usize, global: &mut HashMap<u64, usize>, st: &mut Stats, init_id: usize) {
    let m0 = init.model();
    let mut seen: HashMap<u64, ()> = HashMap::new();
    seen.insert(key(&m0), ());
    if let Err((c, d)) = check_state(&init.real(), &m0) {
        st.violate(format!("initial:{}", c), d, json!({"init": format!("{:?}", init), "history": []}));
    }
    let mut frontier: Vec<(Vec<Op>, Model)> = vec![(vec![], m0)];
    let mut depth = 0u64;
    while !frontier.is_empty() {
        depth += 1;
        // expand the frontier in parallel; dedup sequentially (deterministic order)
        let results = vmc::explore::par_slice(threads, &frontier, Vec::new, |acc: &mut Vec<(usize, Op, Model, Option<(String, String)>)>, i, (hist, model)| {
            for &op in ops {
                let mut real = build(init, hist);
                real_add(&mut real, op);
                let mut m = model.clone();
                model_add(&mut m, op);
                let r = check_state(&real, &m).err();
                acc.push((i, op, m, r));
            }
        });
        let mut all: Vec<(usize, Op, Model, Option<(String, String)>)> = results.into_iter().flatten().collect();
        all.sort_by(|a, b| (a.0, a.1.kind, a.1.name, a.1.value).cmp(&(b.0, b.1.kind, b.1.name, b.1.value)));
        let mut next = vec![];
        for (i, op, m, err) in all {
            st.transitions += 1;
            st.evaluations += 1;
            if let Some((c, d)) = err {
                let mut h: Vec<Op> = frontier[i].0.clone();
                h.push(op);
                st.violate(c, format!("after {:?} from {:?}: {}", h, init, d), json!({"init": format!("{:?}", init.groups), "history": h.iter().map(|o| json!([o.kind, o.name, o.value])).collect::<Vec<_>>()}));
                continue;
            }
            let k = key(&m);
            if seen.insert(k, ()).is_none() {
                match global.get(&k) {
                    Some(other) if *other != init_id => st.count("states_also_reached_from_another_initial_state", 1),
                    _ => {
                        global.insert(k, init_id);
                    }
                }
                st.states.insert(k);
                if m.len() > 1 || m.iter().any(|g| g.1.len() > 1) {
                    st.nontrivial.insert(k);
                }
                let mut h = frontier[i].0.clone();
                h.push(op);
                st.sample(2, || json!({"init": format!("{:?}", init.groups), "history": h.iter().map(|o| format!("add({:#04x},{},{})", o.kind, o.name as char, o.value)).collect::<Vec<_>>(), "state": format!("{:?}", m)}));
                next.push((h, m));
            }
        }
        st.traces += next.len() as u64;
        frontier = next;
    }
    st.max_depth = st.max_depth.max(depth);
}

// ------------------------------------------------------------------ traversal

fn traversal_check(v: &IppValue) -> Result<(), String> {
    let want: Vec<&IppValue> = match v {
        IppValue::Array(items) => items.iter().collect(),
        IppValue::Collection(map) => {
            // member-name order, established here (octet order of the names), not taken from the map's own iteration
            let mut pairs: Vec<(&String, &IppValue)> = map.iter().collect();
            pairs.sort_by(|a, b| a.0.as_bytes().cmp(b.0.as_bytes()));
            pairs.into_iter().map(|p| p.1).collect()
        }
        other => vec![other],
    };
    let mut it = v.into_iter();
    for (i, w) in want.iter().enumerate() {
        match it.next() {
            Some(g) if std::ptr::eq(g, *w) => {}
            Some(g) => return Err(format!("element {} is {:?}, expected {:?}", i, g, w)),
            None => return Err(format!("ended after {} of {} elements", i, want.len())),
        }
    }
    for extra in 0..3 {
        if let Some(g) = it.next() {
            return Err(format!("yields {:?} after the end (extra call {})", g, extra));
        }
    }
    // the provided Iterator methods a user may call on a partly consumed traversal: nth, skip, step_by, last, count
    let n = want.len();
    for j in 0..=(n + 1).min(5) {
        for k in 0..=(n + 1).min(5) {
            let mut it = v.into_iter();
            for _ in 0..j {
                it.next();
            }
            let got = it.nth(k);
            let exp = want.get(j + k).copied();
            if got.map(|g| g as *const IppValue) != exp.map(|g| g as *const IppValue) {
                return Err(format!("after {} next() calls nth({}) gives {:?}, expected {:?}", j, k, got, exp));
            }
            let after = it.next();
            let exp2 = want.get(j + k + 1).copied();
            if exp.is_some() && after.map(|g| g as *const IppValue) != exp2.map(|g| g as *const IppValue) {
                return Err(format!("after {} next() calls and nth({}) the following element is {:?}, expected {:?}", j, k, after, exp2));
            }
        }
        for step in [2usize, 3] {
            let mut it = v.into_iter();
            for _ in 0..j {
                it.next();
            }
            let got: Vec<*const IppValue> = it.step_by(step).take(n + 3).map(|g| g as *const IppValue).collect();
            let exp: Vec<*const IppValue> = want.iter().skip(j).step_by(step).map(|g| *g as *const IppValue).collect();
            if got != exp {
                return Err(format!("after {} next() calls step_by({}) visits {} elements, expected {} (or other ones)", j, step, got.len(), exp.len()));
            }
        }
        let mut it = v.into_iter();
        for _ in 0..j {
            it.next();
        }
        let c = it.take(n + 5).count();
        if c != n.saturating_sub(j) {
            return Err(format!("after {} next() calls {} elements remain, expected {}", j, c, n.saturating_sub(j)));
        }
        let mut it = v.into_iter();
        for _ in 0..j {
            it.next();
        }
        let l = it.skip(1).next();
        let exp = want.get(j + 1).copied();
        if l.map(|g| g as *const IppValue) != exp.map(|g| g as *const IppValue) {
            return Err(format!("after {} next() calls skip(1) gives {:?}, expected {:?}", j, l, exp));
        }
    }
    // the for-loop form must agree
    let n = v.into_iter().take(want.len() + 5).count();
    if n != want.len() {
        return Err(format!("for-loop visits {} elements, expected {}", n, want.len()));
    }
    Ok(())
}

fn traverse_all(v: &IppValue, st: &mut Stats, origin: &Json) {
    st.evaluations += 1;
    st.transitions += 1;
    let r = std::panic::catch_unwind(|| traversal_check(v));
    match r {
        Ok(Ok(())) => st.outcome(match v {
            IppValue::Array(_) => "set",
            IppValue::Collection(_) => "collection",
            _ => "scalar",
        }),
        Ok(Err(e)) => st.violate("traversal", format!("{} on {:?}", e, v), json!({"traversal": origin})),
        Err(p) => st.violate("traversal-panic", panic_text(p), json!({"traversal": origin})),
    }
    // and every nested value
    match v {
        IppValue::Array(items) => items.iter().for_each(|x| traverse_all(x, st, origin)),
        IppValue::Collection(map) => map.values().for_each(|x| traverse_all(x, st, origin)),
        _ => {}
    }
}

pub fn run(ctx: &Ctx) -> ! {
    silence_panics();
    let mut rep = Report::new(
        ctx,
        "model_checking",
        "explicit-state breadth-first search to a FIXPOINT over the alphabet add(kind in {operation, job, printer, unsupported}, name in {a,b}, value in {1,2[,3]}) from the empty container and from parser-produced messages with repeated / empty groups; every state is rebuilt as a fresh real IppAttributes from its history (IppAttributes::new or IppParser::parse_parts, then add ... add), the operation is applied to the real object and to the ordered model R6, and groups(), groups_of(kind) for all four kinds and into_groups() are compared with the model on every transition. Value traversal: every value of the bounded value space, IntoIterator compared element-by-element (pointer identity) with the model sequence, then None three times, and the provided iterator methods (nth, skip, step_by, count) on a partly consumed traversal; collections over every subset of <= 3 of 11 tricky member names (empty, case twins, trailing blank / NUL, NFC vs NFD, extremes of the octet order) with scalar / set / collection members, built in memory and read back from the wire; the expected member order is established by sorting the names, not taken from the map. states = distinct canonical container states; non-trivial = more than one attribute",
    );
    rep.assume("canonicalisation (ordered list of (kind, sorted name->value map)) merges only states with equal futures: add/groups_of depend on group kinds in order and on map contents only");

    // thorough: a third VALUE (not a third name: 3 names x 2 values has 1.1e7 states from the empty container alone)
    let names: &[u8] = &b"ab"[..];
    let values: &[i32] = ctx.tier.pick(&[1, 2][..], &[1, 2, 3][..]);
    let mut ops = vec![];
    for k in KINDS {
        for &n in names {
            for &v in values {
                ops.push(Op { kind: k, name: n, value: v });
            }
        }
    }

    if let Some(p) = &ctx.replay {
        let (_, j) = vmc::report::load_replay(p);
        let mut st = Stats::new();
        st.evaluations = 1;
        if j.get("traversal").is_some() {
            println!("replay: traversal cases are re-run by the full check (origin {})", j["traversal"]);
        } else {
            let groups: Vec<(u8, bool)> = {
                let s = j["init"].as_str().unwrap_or("[]");
                // format: [(1, true), (2, false)]
                s.trim_matches(|c| c == '[' || c == ']')
                    .split("),")
                    .filter(|x| !x.trim().is_empty())
                    .map(|x| {
                        let x = x.trim().trim_matches(|c| c == '(' || c == ')');
                        let mut it = x.split(',');
                        (it.next().unwrap().trim().parse().unwrap_or(1), it.next().unwrap_or("false").trim().starts_with("true"))
                    })
                    .collect()
            };
            let init = Init { groups };
            let hist: Vec<Op> = j["history"]
                .as_array()
                .map(|a| a.iter().map(|o| Op { kind: o[0].as_u64().unwrap_or(1) as u8, name: o[1].as_u64().unwrap_or(97) as u8, value: o[2].as_i64().unwrap_or(1) as i32 }).collect())
                .unwrap_or_default();
            let mut model = init.model();
            for op in &hist {
                model_add(&mut model, *op);
            }
            let real = build(&init, &hist);
            match check_state(&real, &model) {
                Ok(()) => println!("replay: history agrees with the model"),
                Err((c, d)) => {
                    println!("replay: class={} detail={}", c, d);
                    st.violate(c, d, j.clone());
                }
            }
        }
        rep.absorb(st);
        rep.finish();
    }

    // initial states
    let mut inits: Vec<Init> = vec![Init { groups: vec![] }];
    let rep_seqs: Vec<Vec<u8>> = {
        let mut v = vec![];
        for a in KINDS {
            for b in KINDS {
                if a == b {
                    v.push(vec![a, b]);
                }
                for c in KINDS {
                    if a == b || b == c || a == c {
                        v.push(vec![a, b, c]);
                    }
                }
            }
        }
        v
    };
    let chosen: Vec<Vec<u8>> = match ctx.tier {
        vmc::report::Tier::Quick => vec![vec![2, 2], vec![1, 2, 1], vec![4, 1, 4], vec![5, 5, 2]],
        vmc::report::Tier::Thorough => rep_seqs,
    };
    for seq in &chosen {
        // every group holds a=1; and the variant whose first group is empty
        inits.push(Init {
            groups: seq.iter().map(|k| (*k, true)).collect(),
        });
        inits.push(Init {
            groups: seq.iter().enumerate().map(|(i, k)| (*k, i != 0)).collect(),
        });
    }
    // parser-produced messages WITHOUT repeats: must coincide with states reached from the empty container
    inits.push(Init { groups: vec![(1, true)] });
    inits.push(Init { groups: vec![(2, true), (1, true)] });
    inits.push(Init { groups: vec![(4, true), (2, true), (5, true)] });

    // thorough: the larger alphabet (third value) is used from the empty container and from the first few initial
    // states; the full list of repeated-kind initial states runs with the 16-operation alphabet (the product of
    // both would be ~5e8 transitions)
    let small_ops: Vec<Op> = ops.iter().copied().filter(|o| o.value <= 2).collect();
    let mut global: HashMap<u64, usize> = HashMap::new();
    for (i, init) in inits.iter().enumerate() {
        let mut st = Stats::new();
        let ops: &Vec<Op> = if i <= 8 || inits.len() - i <= 3 { &ops } else { &small_ops };
        bfs(init, ops, ctx.threads, &mut global, &mut st, i);
        let name = format!("bfs from {:?}", init.groups);
        rep.section(&name, st);
    }
    // the same closed space over the names {a, A}: two names that differ only in case are two names (a replace that
    // matched names loosely would merge them)
    {
        let twin_ops: Vec<Op> = KINDS.iter().flat_map(|k| [b'a', b'A'].into_iter().flat_map(move |n| [1, 2].into_iter().map(move |v| Op { kind: *k, name: n, value: v }))).collect();
        let mut st = Stats::new();
        let mut own: HashMap<u64, usize> = HashMap::new();
        bfs(&inits[0], &twin_ops, ctx.threads, &mut own, &mut st, inits.len());
        rep.section("bfs from [] over names {a, A}", st);
    }

    // traversal over the bounded value space
    let vb = SkelBounds {
        max_groups: 1,
        max_attrs: 1,
        max_set: 3,
        max_members: 3,
        max_depth: ctx.tier.pick(3, 4),
        budget: ctx.tier.pick(5, 7),
        op_first: true,
        header: Some(0),
    };
    let mut st = Stats::new();
    for_each_skel(vb, |choices, m| {
        if let Some(a) = m.groups[0].attrs.first() {
            let v = to_ipp_value(&a.values);
            let origin = json!(choices);
            traverse_all(&v, &mut st, &origin);
            let k = fnv(format!("{:?}", v).as_bytes());
            st.states.insert(k);
            if !matches!(v, IppValue::Integer(_) | IppValue::Keyword(_) | IppValue::NoValue) {
                st.nontrivial.insert(k);
            }
            st.traces += 1;
            st.sample(1, || json!({"value": format!("{:?}", v), "visited": v.into_iter().map(|x| format!("{}", x)).collect::<Vec<_>>()}));
        }
    });
    for a in vmc::gen::atoms() {
        let v = to_ipp_scalar(&a);
        traverse_all(&v, &mut st, &json!("atom"));
    }
    // collections over tricky member names: every subset of <= 3 of them (the empty name, names differing in case,
    // by a trailing blank / NUL, by Unicode normalisation, the extremes of the octet order), with a scalar, a set
    // and a nested collection as member values; built in memory and also read back from the wire
    let tricky: [&str; 11] = ["", "a", "A", "a ", "a\0", "b", "\u{e9}", "e\u{301}", "\u{10ffff}", "~", " "];
    for mask in 1u32..(1 << tricky.len()) {
        if mask.count_ones() > 3 {
            continue;
        }
        let picked: Vec<&str> = tricky.iter().enumerate().filter(|(i, _)| mask & (1 << i) != 0).map(|(_, n)| *n).collect();
        for shape in 0..3u32 {
            let members: Vec<(Vec<u8>, Vec<vmc::r1::Val>)> = picked
                .iter()
                .enumerate()
                .map(|(i, n)| {
                    let vals = match (shape + i as u32) % 3 {
                        0 => vec![vmc::r1::Val::Int(i as i32)],
                        1 => vec![vmc::r1::Val::Int(i as i32), vmc::r1::Val::Bool(true)],
                        _ => vec![vmc::r1::Val::Coll(vec![(n.as_bytes().to_vec(), vec![vmc::r1::Val::Int(7)]), (b"z".to_vec(), vec![vmc::r1::Val::NoValue])])],
                    };
                    (n.as_bytes().to_vec(), vals)
                })
                .collect();
            let coll = vmc::r1::Val::Coll(members);
            let origin = json!({"tricky-members": picked, "shape": shape});
            let v = to_ipp_value(&[coll.clone()]);
            traverse_all(&v, &mut st, &origin);
            st.traces += 1;
            let k = fnv(format!("{:?}", v).as_bytes());
            st.states.insert(k);
            st.nontrivial.insert(k);
            // the same collection as the parser builds it
            let mut m = vmc::r1::Msg::new(0x0101, 0, 1);
            m.groups.push(vmc::r1::Group { tag: vmc::r1::TAG_OPERATION, attrs: vec![vmc::r1::Attr { name: b"c".to_vec(), values: vec![coll] }] });
            let wire = vmc::r1::encode(&m);
            if let Ok(parsed) = ipp::parser::IppParser::new(ipp::reader::IppReader::new(std::io::Cursor::new(wire))).parse() {
                for g in parsed.attributes().groups() {
                    for a in g.attributes().values() {
                        traverse_all(a.value(), &mut st, &json!({"tricky-members-parsed": picked, "shape": shape}));
                    }
                }
            }
        }
    }
    rep.section("value-traversal", st);
    rep.set("alphabet", json!(format!("{} operations: kinds {:?} x names {:?} x values {:?}", ops.len(), KINDS, names.iter().map(|c| *c as char).collect::<Vec<_>>(), values)));
    rep.set("initial_states", json!(inits.len()));
    rep.finish()
}
