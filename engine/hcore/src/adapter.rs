//! Thin adapter between the library's public types and the R1 model types.

use ipp::prelude::*;
use std::collections::BTreeMap;
use vmc::r1::*;

pub fn s(b: &[u8]) -> String {
    String::from_utf8(b.to_vec()).expect("generator produced non-UTF-8 where the public model needs a String")
}

/// R1 scalar -> library value (strings must be valid UTF-8: the public model holds `String`s)
pub fn to_ipp_scalar(v: &Val) -> IppValue {
    match v {
        Val::Int(i) => IppValue::Integer(*i),
        Val::Bool(b) => IppValue::Boolean(*b),
        Val::Enum(i) => IppValue::Enum(*i),
        Val::Octets(o) => IppValue::OctetString(s(o)),
        Val::DateTime(d) => IppValue::DateTime {
            year: u16::from_be_bytes([d[0], d[1]]),
            month: d[2],
            day: d[3],
            hour: d[4],
            minutes: d[5],
            seconds: d[6],
            deci_seconds: d[7],
            utc_dir: d[8] as char,
            utc_hours: d[9],
            utc_mins: d[10],
        },
        Val::Resolution(a, b, c) => IppValue::Resolution {
            cross_feed: *a,
            feed: *b,
            units: *c,
        },
        Val::Range(a, b) => IppValue::RangeOfInteger { min: *a, max: *b },
        Val::TextLang(l, t) => IppValue::TextWithLanguage {
            language: s(l),
            text: s(t),
        },
        Val::NameLang(l, t) => IppValue::NameWithLanguage {
            language: s(l),
            name: s(t),
        },
        Val::Str(t, b) => {
            let x = s(b);
            match *t {
                T_TEXT => IppValue::TextWithoutLanguage(x),
                T_NAME => IppValue::NameWithoutLanguage(x),
                T_KEYWORD => IppValue::Keyword(x),
                T_URI => IppValue::Uri(x),
                T_URISCHEME => IppValue::UriScheme(x),
                T_CHARSET => IppValue::Charset(x),
                T_NATLANG => IppValue::NaturalLanguage(x),
                T_MIME => IppValue::MimeMediaType(x),
                T_MEMBERNAME => IppValue::MemberAttrName(x),
                _ => unreachable!("not a string tag"),
            }
        }
        Val::NoValue => IppValue::NoValue,
        Val::Unknown(t, d) => IppValue::Other {
            tag: *t,
            data: bytes::Bytes::from(d.clone()),
        },
        Val::Coll(ms) => {
            let mut m = BTreeMap::new();
            for (k, vs) in ms {
                m.insert(s(k), to_ipp_value(vs));
            }
            IppValue::Collection(m)
        }
    }
}

/// 1 value -> scalar, n values -> set
pub fn to_ipp_value(vs: &[Val]) -> IppValue {
    if vs.len() == 1 {
        to_ipp_scalar(&vs[0])
    } else {
        IppValue::Array(vs.iter().map(to_ipp_scalar).collect())
    }
}

pub fn group_tag(t: u8) -> DelimiterTag {
    DelimiterTag::from_u8(t).expect("group tag")
}

/// Build the message through the public API only: constructor, `header_mut`, `groups_mut`,
/// `IppAttributeGroup::new` + `attributes_mut().insert`.
pub fn build_ipp(m: &Msg) -> IppRequestResponse {
    let mut r = IppRequestResponse::new_response(IppVersion(m.version), StatusCode::SuccessfulOk, m.request_id);
    r.header_mut().operation_or_status = m.code;
    let groups = r.attributes_mut().groups_mut();
    groups.clear();
    for g in &m.groups {
        let mut grp = IppAttributeGroup::new(group_tag(g.tag));
        for a in &g.attrs {
            let name = s(&a.name);
            grp.attributes_mut().insert(name.clone(), IppAttribute::new(&name, to_ipp_value(&a.values)));
        }
        groups.push(grp);
    }
    r
}

pub fn from_ipp_scalar(v: &IppValue) -> Result<Val, String> {
    Ok(match v {
        IppValue::Integer(i) => Val::Int(*i),
        IppValue::Enum(i) => Val::Enum(*i),
        IppValue::Boolean(b) => Val::Bool(*b),
        IppValue::OctetString(x) => Val::Octets(x.as_bytes().to_vec()),
        IppValue::TextWithoutLanguage(x) => Val::Str(T_TEXT, x.as_bytes().to_vec()),
        IppValue::NameWithoutLanguage(x) => Val::Str(T_NAME, x.as_bytes().to_vec()),
        IppValue::Keyword(x) => Val::Str(T_KEYWORD, x.as_bytes().to_vec()),
        IppValue::Uri(x) => Val::Str(T_URI, x.as_bytes().to_vec()),
        IppValue::UriScheme(x) => Val::Str(T_URISCHEME, x.as_bytes().to_vec()),
        IppValue::Charset(x) => Val::Str(T_CHARSET, x.as_bytes().to_vec()),
        IppValue::NaturalLanguage(x) => Val::Str(T_NATLANG, x.as_bytes().to_vec()),
        IppValue::MimeMediaType(x) => Val::Str(T_MIME, x.as_bytes().to_vec()),
        IppValue::MemberAttrName(x) => Val::Str(T_MEMBERNAME, x.as_bytes().to_vec()),
        IppValue::TextWithLanguage { language, text } => Val::TextLang(language.as_bytes().to_vec(), text.as_bytes().to_vec()),
        IppValue::NameWithLanguage { language, name } => Val::NameLang(language.as_bytes().to_vec(), name.as_bytes().to_vec()),
        IppValue::RangeOfInteger { min, max } => Val::Range(*min, *max),
        IppValue::DateTime {
            year,
            month,
            day,
            hour,
            minutes,
            seconds,
            deci_seconds,
            utc_dir,
            utc_hours,
            utc_mins,
        } => {
            let y = year.to_be_bytes();
            if (*utc_dir as u32) > 0xff {
                return Err(format!("utc_dir {:?} does not fit one octet", utc_dir));
            }
            Val::DateTime([y[0], y[1], *month, *day, *hour, *minutes, *seconds, *deci_seconds, *utc_dir as u32 as u8, *utc_hours, *utc_mins])
        }
        IppValue::Resolution { cross_feed, feed, units } => Val::Resolution(*cross_feed, *feed, *units),
        IppValue::NoValue => Val::NoValue,
        IppValue::Other { tag, data } => Val::Unknown(*tag, data.to_vec()),
        IppValue::Collection(m) => {
            let mut ms = vec![];
            for (k, v) in m {
                ms.push((k.as_bytes().to_vec(), from_ipp_value(v)?));
            }
            Val::Coll(ms)
        }
        IppValue::Array(_) => return Err("set nested directly inside a set".into()),
    })
}

/// attribute / member value -> ordered list of values (a one-element set is its element)
pub fn from_ipp_value(v: &IppValue) -> Result<Vec<Val>, String> {
    match v {
        IppValue::Array(items) => {
            if items.is_empty() {
                return Err("empty set".into());
            }
            items.iter().map(from_ipp_scalar).collect()
        }
        other => Ok(vec![from_ipp_scalar(other)?]),
    }
}

pub fn cmsg_from_parts(header: &IppHeader, attrs: &IppAttributes, data: Vec<u8>) -> Result<CMsg, String> {
    let mut groups = vec![];
    for g in attrs.groups() {
        let mut m = BTreeMap::new();
        for (k, a) in g.attributes() {
            if k != a.name() {
                return Err(format!("map key {:?} differs from attribute name {:?}", k, a.name()));
            }
            let vs = from_ipp_value(a.value())?.iter().map(|v| v.canon()).collect::<Vec<_>>();
            m.insert(k.as_bytes().to_vec(), vs);
        }
        groups.push((g.tag() as u8, m));
    }
    Ok(CMsg {
        version: header.version.0,
        code: header.operation_or_status,
        request_id: header.request_id,
        groups,
        data,
    })
}

/// in-memory iteration order of every group's attribute map (what the encoder will follow)
pub fn order_signature(attrs: &IppAttributes) -> Vec<Vec<String>> {
    attrs.groups().iter().map(|g| g.attributes().keys().cloned().collect()).collect()
}

pub fn read_all(mut r: impl std::io::Read) -> Result<Vec<u8>, String> {
    let mut out = vec![];
    r.read_to_end(&mut out).map_err(|e| format!("payload read error: {}", e))?;
    Ok(out)
}

/// Parse with the blocking parser, classify the outcome.
#[derive(Clone, Debug, PartialEq, Eq)]
pub enum Outcome {
    Ok(CMsg),
    InvalidTag(u8),
    InvalidCollection,
    Io(std::io::ErrorKind),
    /// parsed, but the result does not fit the value model (adapter error)
    OutOfModel(String),
    Panic(String),
}

impl Outcome {
    pub fn class(&self) -> String {
        match self {
            Outcome::Ok(_) => "ok".into(),
            Outcome::InvalidTag(_) => "invalid-tag".into(),
            Outcome::InvalidCollection => "invalid-collection".into(),
            Outcome::Io(k) => format!("io-{:?}", k),
            Outcome::OutOfModel(_) => "out-of-model".into(),
            Outcome::Panic(_) => "panic".into(),
        }
    }
    pub fn brief(&self) -> String {
        match self {
            Outcome::Ok(m) => format!("Ok(groups={:?}, data={}B)", m.groups.iter().map(|g| (g.0, g.1.len())).collect::<Vec<_>>(), m.data.len()),
            Outcome::InvalidTag(t) => format!("InvalidTag({:#04x})", t),
            Outcome::Panic(p) => format!("panic: {}", p),
            o => format!("{:?}", o),
        }
    }
}

pub fn classify_err(e: ipp::parser::IppParseError) -> Outcome {
    match e {
        ipp::parser::IppParseError::InvalidTag(t) => Outcome::InvalidTag(t),
        ipp::parser::IppParseError::InvalidCollection => Outcome::InvalidCollection,
        ipp::parser::IppParseError::IoError(e) => Outcome::Io(e.kind()),
    }
}

pub fn panic_text(p: Box<dyn std::any::Any + Send>) -> String {
    if let Some(s) = p.downcast_ref::<&str>() {
        s.to_string()
    } else if let Some(s) = p.downcast_ref::<String>() {
        s.clone()
    } else {
        "non-string panic".into()
    }
}

/// blocking parse of a complete byte string
pub fn parse_blocking(bytes: &[u8]) -> Outcome {
    let data = bytes.to_vec();
    let r = std::panic::catch_unwind(move || {
        let p = ipp::parser::IppParser::new(ipp::reader::IppReader::new(std::io::Cursor::new(data)));
        match p.parse() {
            Ok(resp) => {
                let header = resp.header().clone();
                let attrs = resp.attributes().clone();
                match read_all(resp.into_payload()) {
                    Ok(payload) => match cmsg_from_parts(&header, &attrs, payload) {
                        Ok(m) => Outcome::Ok(m),
                        Err(e) => Outcome::OutOfModel(e),
                    },
                    Err(e) => Outcome::OutOfModel(e),
                }
            }
            Err(e) => classify_err(e),
        }
    });
    match r {
        Ok(o) => o,
        Err(p) => Outcome::Panic(panic_text(p)),
    }
}

/// async parse of a complete byte string from an always-ready in-memory cursor
pub fn parse_async_ready(bytes: &[u8]) -> Outcome {
    let data = bytes.to_vec();
    let r = std::panic::catch_unwind(move || {
        let p = ipp::parser::AsyncIppParser::new(ipp::reader::AsyncIppReader::new(futures_util::io::Cursor::new(data)));
        match futures_executor::block_on(p.parse()) {
            Ok(resp) => {
                let header = resp.header().clone();
                let attrs = resp.attributes().clone();
                match read_all(resp.into_payload()) {
                    Ok(payload) => match cmsg_from_parts(&header, &attrs, payload) {
                        Ok(m) => Outcome::Ok(m),
                        Err(e) => Outcome::OutOfModel(e),
                    },
                    Err(e) => Outcome::OutOfModel(e),
                }
            }
            Err(e) => classify_err(e),
        }
    });
    match r {
        Ok(o) => o,
        Err(p) => Outcome::Panic(panic_text(p)),
    }
}

pub fn silence_panics() {
    std::panic::set_hook(Box::new(|_| {}));
}
