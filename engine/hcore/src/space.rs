//! The message space shared by C01, C03 and C20 (DESIGN §2 D-skel + D-atoms), and the
//! permutation-coverage driver that owns `HashMap` iteration order.

use crate::adapter::*;
use ipp::prelude::*;
use std::collections::BTreeSet;
use vmc::gen::*;
use vmc::r1::*;
use vmc::report::Tier;
use vmc::{json, Json};

#[derive(Clone)]
pub struct Case {
    pub kind: &'static str,
    pub msg: Msg,
    /// 0 none, 1 [0x03], 2 IPP look-alike, 3 70 000 patterned bytes
    pub payload_kind: u8,
}

pub fn payload_of(kind: u8, seed: u64) -> Vec<u8> {
    match kind {
        0 => vec![],
        1 => vec![0x03],
        2 => vec![1, 1, 0, 0, 0, 0, 0, 0, 3],
        4 => {
            // 1 MiB + 64 KiB + 1: anything that caps, buffers or counts the stream at a "round" size shows here
            let mut v = payload_big(seed);
            while v.len() < (1 << 20) + (64 << 10) + 1 {
                let l = v.len();
                v.extend_from_within(..l.min((1 << 20) + (64 << 10) + 1 - l));
            }
            v
        }
        _ => payload_big(seed),
    }
}

impl Case {
    pub fn to_json(&self) -> Json {
        json!({"kind": self.kind, "msg": self.msg.to_json(), "payload_kind": self.payload_kind})
    }
    pub fn from_json(j: &Json) -> Option<Case> {
        Some(Case {
            kind: "replay",
            msg: Msg::from_json(&j["msg"])?,
            payload_kind: j["payload_kind"].as_u64()? as u8,
        })
    }
}

pub fn skel_bounds(tier: Tier) -> SkelBounds {
    match tier {
        Tier::Quick => SkelBounds {
            max_groups: 3,
            max_attrs: 2,
            max_set: 3,
            max_members: 2,
            max_depth: 3,
            budget: 4,
            op_first: true,
            header: Some(0),
        },
        Tier::Thorough => SkelBounds {
            max_groups: 4,
            max_attrs: 2,
            max_set: 3,
            max_members: 2,
            max_depth: 3,
            budget: 4,
            op_first: true,
            header: Some(0),
        },
    }
}

/// thorough only: deeper value structure inside a single operation group
pub fn value_bounds() -> SkelBounds {
    SkelBounds {
        max_groups: 1,
        max_attrs: 2,
        max_set: 4,
        max_members: 3,
        max_depth: 4,
        budget: 6,
        op_first: true,
        header: Some(1),
    }
}

fn attr(name: &str, values: Vec<Val>) -> Attr {
    Attr {
        name: name.as_bytes().to_vec(),
        values,
    }
}

/// messages with 3 and 4 unordered attributes per group (for permutation coverage)
pub fn perm_programs() -> Vec<Msg> {
    let mut out = vec![];
    let names = ["aa", "b", "copies", "zz-top"];
    for m in 3..=4usize {
        for variant in 0..4u32 {
            for tag in [TAG_OPERATION, TAG_JOB] {
                let mut msg = Msg::new(0x0101, 0x0002, 9);
                if tag != TAG_OPERATION {
                    msg.groups.push(Group {
                        tag: TAG_OPERATION,
                        attrs: vec![attr("attributes-charset", vec![Val::Str(T_CHARSET, b"utf-8".to_vec())])],
                    });
                }
                let mut g = Group { tag, attrs: vec![] };
                for i in 0..m {
                    let vals = match (variant + i as u32) % 4 {
                        0 => vec![leaf(i as u32)],
                        1 => vec![leaf(i as u32), leaf(i as u32 + 1)],
                        2 => vec![Val::Coll(vec![(b"m".to_vec(), vec![leaf(i as u32)])])],
                        _ => vec![Val::Range(i as i32, 9)],
                    };
                    g.attrs.push(attr(names[i], vals));
                }
                msg.groups.push(g);
                out.push(msg);
            }
        }
    }
    out
}

/// Enumerate the whole space for a tier, pushing cases into `emit`.
pub fn produce(tier: Tier, emit: &mut dyn FnMut(Case)) {
    // (A) skeleton-exhaustive, payload none / [03] / look-alike
    for_each_skel(skel_bounds(tier), |_, m| {
        emit(Case {
            kind: "skel",
            msg: m,
            payload_kind: 0,
        });
    });
    if tier == Tier::Thorough {
        for_each_skel(value_bounds(), |_, m| {
            emit(Case {
                kind: "skel-values",
                msg: m,
                payload_kind: 0,
            });
        });
    }
    // (A') every header variant x every small payload kind over the skeleton space of budget 2 (3 thorough)
    let mut small = skel_bounds(tier);
    small.budget = tier.pick(2, 3);
    small.header = None;
    for_each_skel(small, |_, m| {
        for pk in 0..3u8 {
            emit(Case {
                kind: "skel-hdr-payload",
                msg: m.clone(),
                payload_kind: pk,
            });
        }
    });
    // (B) every atom in every context class with every neighbour syntax
    for a in atoms() {
        for (i, (_ctx, m)) in atom_contexts(&a).into_iter().enumerate() {
            emit(Case {
                kind: "atom",
                msg: m,
                payload_kind: (i % 3) as u8,
            });
        }
    }
    // (B') attributes named like the mandatory / target operation attributes (the encoder treats these five
    // names specially): every subset of them x placement {first operation group, a later operation group,
    // a job group}
    let special: [(&str, Val); 5] = [
        ("attributes-charset", Val::Str(T_CHARSET, b"utf-8".to_vec())),
        ("attributes-natural-language", Val::Str(T_NATLANG, b"en".to_vec())),
        ("printer-uri", Val::Str(T_URI, b"ipp://h/p".to_vec())),
        ("job-uri", Val::Str(T_URI, b"ipp://h/j/1".to_vec())),
        ("job-id", Val::Int(7)),
    ];
    for mask in 1u32..32 {
        let picked: Vec<Attr> = special.iter().enumerate().filter(|(i, _)| mask & (1 << i) != 0).map(|(_, (n, v))| attr(n, vec![v.clone()])).collect();
        // at most 4 unordered attributes per group keeps complete order coverage possible
        if picked.len() > 4 {
            continue;
        }
        for placement in 0..3 {
            let mut m = Msg::new(0x0101, 0x0002, 5);
            match placement {
                0 => m.groups.push(Group { tag: TAG_OPERATION, attrs: picked.clone() }),
                1 => {
                    m.groups.push(Group { tag: TAG_OPERATION, attrs: vec![attr("x", vec![Val::Int(1)])] });
                    m.groups.push(Group { tag: TAG_JOB, attrs: vec![attr("y", vec![Val::Int(2)])] });
                    m.groups.push(Group { tag: TAG_OPERATION, attrs: picked.clone() });
                }
                _ => {
                    m.groups.push(Group { tag: TAG_OPERATION, attrs: vec![attr("x", vec![Val::Int(1)])] });
                    m.groups.push(Group { tag: TAG_JOB, attrs: picked.clone() });
                }
            }
            emit(Case {
                kind: "special-names",
                msg: m,
                payload_kind: 0,
            });
        }
    }
    // (B2) look-alikes of the five special names (equal to one of them up to ASCII case, a trailing blank or NUL,
    // '_' for '-'): alone and next to the exact name, in the first operation group, a later one, a job group
    for (i, look) in special_name_lookalikes() {
        let (exact_name, exact_val) = &special[i];
        for with_exact in [false, true] {
            for placement in 0..3 {
                let mut attrs = vec![Attr { name: look.clone(), values: vec![exact_val.clone()] }];
                if with_exact {
                    attrs.push(attr(exact_name, vec![exact_val.clone()]));
                }
                let mut m = Msg::new(0x0101, 0x0002, 5);
                match placement {
                    0 => m.groups.push(Group { tag: TAG_OPERATION, attrs }),
                    1 => {
                        m.groups.push(Group { tag: TAG_OPERATION, attrs: vec![attr("x", vec![Val::Int(1)])] });
                        m.groups.push(Group { tag: TAG_OPERATION, attrs });
                    }
                    _ => {
                        m.groups.push(Group { tag: TAG_OPERATION, attrs: vec![attr("x", vec![Val::Int(1)])] });
                        m.groups.push(Group { tag: TAG_JOB, attrs });
                    }
                }
                emit(Case { kind: "special-lookalike", msg: m, payload_kind: 0 });
            }
        }
    }
    // (B3) twins: two DISTINCT names that collide under a plausible normalisation, side by side in one group
    // (operation / job) and as members of one collection; and the empty member name
    let mut twins = name_twins();
    twins.push((b"".to_vec(), b"a".to_vec()));
    for (a, b) in twins {
        for placement in 0..3 {
            if placement < 2 && (a.is_empty() || b.is_empty()) {
                // an attribute (as opposed to a member) with an empty name is not representable on the wire
                continue;
            }
            let mut m = Msg::new(0x0101, 0x0002, 5);
            let pair = vec![
                Attr { name: a.clone(), values: vec![Val::Int(1)] },
                Attr { name: b.clone(), values: vec![Val::Int(2), Val::Str(T_KEYWORD, b"k".to_vec())] },
            ];
            match placement {
                0 => m.groups.push(Group { tag: TAG_OPERATION, attrs: pair }),
                1 => {
                    m.groups.push(Group { tag: TAG_OPERATION, attrs: vec![attr("x", vec![Val::Int(1)])] });
                    m.groups.push(Group { tag: TAG_JOB, attrs: pair });
                }
                _ => m.groups.push(Group {
                    tag: TAG_OPERATION,
                    attrs: vec![attr(
                        "c",
                        vec![Val::Coll(vec![(a.clone(), vec![Val::Int(1)]), (b.clone(), vec![Val::Int(2), Val::Bool(true)])])],
                    )],
                }),
            }
            emit(Case { kind: "name-twins", msg: m, payload_kind: 0 });
        }
    }
    // (B4) long names / texts made of multi-octet characters at every alignment (see multibyte_names)
    for len in MULTIBYTE_LENS {
        for n in multibyte_names(len) {
            let mut m = Msg::new(0x0101, 0, 1);
            let lang_end = (0..=60.min(n.len())).rev().find(|i| std::str::from_utf8(&n[..*i]).is_ok()).unwrap_or(0);
            m.groups.push(Group {
                tag: TAG_OPERATION,
                attrs: vec![
                    Attr { name: n.clone(), values: vec![Val::Str(T_TEXT, n.clone())] },
                    Attr {
                        name: b"c".to_vec(),
                        values: vec![Val::Coll(vec![(n.clone(), vec![Val::TextLang(n[..lang_end].to_vec(), n.clone())])])],
                    },
                ],
            });
            emit(Case { kind: "multibyte-name", msg: m, payload_kind: 0 });
        }
    }
    // (B5) names that coincide with identifiers of the library's data model, as attribute and as member names
    for n in STRUCTURAL_NAMES {
        for placement in 0..3 {
            let mut m = Msg::new(0x0101, 0x0002, 5);
            let a = Attr { name: n.as_bytes().to_vec(), values: vec![Val::Int(3)] };
            match placement {
                0 => m.groups.push(Group { tag: TAG_OPERATION, attrs: vec![a, attr("x", vec![Val::Int(1)])] }),
                1 => {
                    m.groups.push(Group { tag: TAG_OPERATION, attrs: vec![attr("x", vec![Val::Int(1)])] });
                    m.groups.push(Group { tag: TAG_PRINTER, attrs: vec![a] });
                }
                _ => m.groups.push(Group {
                    tag: TAG_OPERATION,
                    attrs: vec![attr("c", vec![Val::Coll(vec![(n.as_bytes().to_vec(), vec![Val::Int(1), Val::Str(T_KEYWORD, n.as_bytes().to_vec())]), (b"zz".to_vec(), vec![Val::NoValue])])])],
                }),
            }
            emit(Case { kind: "structural-name", msg: m, payload_kind: 0 });
        }
    }
    // (B6) every value a peer may give the two mandatory operation attributes x non-ASCII text in every text
    // position (the content of a message must not depend on what its charset attribute says: the in-memory model is
    // Unicode strings). Not part of the C03 space: what an independent RFC decoder makes of non-UTF-8 charsets is a
    // question the statement of C03 does not settle.
    for cs in CHARSETS {
        for nl in NATURAL_LANGUAGES {
            for first in [true, false] {
                let mut m = Msg::new(0x0101, 0x0002, 5);
                let texts = vec![
                    attr("t", vec![Val::Str(T_TEXT, "B\u{fc}ro \u{20ac}".as_bytes().to_vec())]),
                    attr("n", vec![Val::Str(T_NAME, "n\u{e4}me".as_bytes().to_vec()), Val::Str(T_KEYWORD, "k\u{e9}y".as_bytes().to_vec())]),
                    attr("c", vec![Val::Coll(vec![("m\u{f6}".as_bytes().to_vec(), vec![Val::TextLang(b"de".to_vec(), "gr\u{fc}n".as_bytes().to_vec())])])]),
                ];
                let mand = vec![attr("attributes-charset", vec![Val::Str(T_CHARSET, cs.as_bytes().to_vec())]), attr("attributes-natural-language", vec![Val::Str(T_NATLANG, nl.as_bytes().to_vec())])];
                if first {
                    let mut attrs = mand.clone();
                    attrs.extend(texts[..2].iter().cloned());
                    m.groups.push(Group { tag: TAG_OPERATION, attrs });
                    m.groups.push(Group { tag: TAG_JOB, attrs: texts[2..].to_vec() });
                } else {
                    m.groups.push(Group { tag: TAG_OPERATION, attrs: mand.clone() });
                    m.groups.push(Group { tag: TAG_PRINTER, attrs: texts.clone() });
                }
                emit(Case { kind: "charset-variants", msg: m, payload_kind: 0 });
            }
        }
    }
    // (C) permutation programs
    for m in perm_programs() {
        emit(Case {
            kind: "perm",
            msg: m,
            payload_kind: 0,
        });
    }
    // (D) realistic messages, also with the big payload
    for (_, mut m) in realistic() {
        m.data.clear();
        for pk in [0u8, 3] {
            emit(Case {
                kind: "realistic",
                msg: m.clone(),
                payload_kind: pk,
            });
        }
    }
    // (E) 16-bit length sweep (values and names)
    let mut maxes = max_len_atoms();
    maxes.extend(len_boundary_atoms());
    let _ = tier;
    for a in maxes.into_iter() {
        let mut m = Msg::new(0x0101, 0, 1);
        m.groups.push(Group {
            tag: TAG_OPERATION,
            attrs: vec![attr("v", vec![a.clone()]), attr("w", vec![a.clone(), Val::Int(7)])],
        });
        emit(Case {
            kind: "maxlen",
            msg: m,
            payload_kind: 1,
        });
    }
    // attribute and member names at the 8-bit, signed-16-bit and 16-bit boundaries, and multi-byte names
    let mut names: Vec<Vec<u8>> = [255usize, 256, 32767, 32768, 65535].iter().map(|l| vec![b'n'; *l]).collect();
    names.push("nämé-€".as_bytes().to_vec());
    names.push(b" ".to_vec());
    for n in names {
        let mut m = Msg::new(0x0101, 0, 1);
        m.groups.push(Group {
            tag: TAG_OPERATION,
            attrs: vec![
                Attr {
                    name: n.clone(),
                    values: vec![Val::Int(1), Val::Str(T_KEYWORD, b"k".to_vec())],
                },
                Attr {
                    name: b"c".to_vec(),
                    values: vec![Val::Coll(vec![(n.clone(), vec![Val::Int(2)]), (b"z".to_vec(), vec![Val::NoValue])])],
                },
            ],
        });
        emit(Case {
            kind: "boundary-name",
            msg: m,
            payload_kind: 0,
        });
    }
}

fn fact(n: usize) -> usize {
    (1..=n).product::<usize>().max(1)
}

pub struct OrderCoverage {
    pub builds: u64,
    pub observed: u64,
    pub possible: u64,
}

/// Rebuild `msg` in fresh maps until every group's attribute map has been observed in every one of
/// its m! iteration orders; `f` is called on each instance that shows an order not seen before.
/// Returns Err when coverage is not reached within the cap (machinery failure, never a pass).
pub fn for_all_orders(msg: &Msg, mut f: impl FnMut(IppRequestResponse, &Vec<Vec<String>>)) -> Result<OrderCoverage, String> {
    // groups with more than 4 attributes (realistic messages only) cannot be covered completely:
    // 6 distinct orders are required there instead, and the evidence counts them separately
    let want: Vec<usize> = msg.groups.iter().map(|g| if g.attrs.len() <= 4 { fact(g.attrs.len()) } else { 6 }).collect();
    let maxf = want.iter().copied().max().unwrap_or(1);
    let mut seen: Vec<BTreeSet<Vec<String>>> = vec![BTreeSet::new(); msg.groups.len()];
    let cap = 64 * maxf as u64 + 8;
    let mut builds = 0u64;
    loop {
        builds += 1;
        let inst = build_ipp(msg);
        let sig = order_signature(inst.attributes());
        let mut fresh = builds == 1;
        for (g, o) in sig.iter().enumerate() {
            if seen[g].insert(o.clone()) {
                fresh = true;
            }
        }
        if fresh {
            f(inst, &sig);
        }
        if seen.iter().zip(&want).all(|(s, w)| s.len() >= *w) {
            break;
        }
        if builds >= cap {
            return Err(format!(
                "iteration-order coverage not reached after {} builds (seen {:?} of {:?})",
                builds,
                seen.iter().map(|s| s.len()).collect::<Vec<_>>(),
                want
            ));
        }
    }
    Ok(OrderCoverage {
        builds,
        observed: seen.iter().map(|s| s.len() as u64).sum(),
        possible: want.iter().map(|w| *w as u64).sum(),
    })
}
