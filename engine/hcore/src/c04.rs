//! C04 — the parser reads every well-formed RFC 8010 message as the RFC says (oracle: R1 decoder).

use crate::adapter::*;
use vmc::explore::{par_pipeline, par_range};
use vmc::gen::*;
use vmc::r1::{self, *};
use vmc::report::{Ctx, Report, Stats, Tier};
use vmc::{fnv, hex, json, unhex, Json};

fn parse_parts_blocking(bytes: &[u8]) -> Outcome {
    let data = bytes.to_vec();
    let r = std::panic::catch_unwind(move || {
        let p = ipp::parser::IppParser::new(ipp::reader::IppReader::new(std::io::Cursor::new(data)));
        match p.parse_parts() {
            Ok((header, attrs, reader)) => match read_all(reader.into_inner()) {
                Ok(payload) => match cmsg_from_parts(&header, &attrs, payload) {
                    Ok(m) => Outcome::Ok(m),
                    Err(e) => Outcome::OutOfModel(e),
                },
                Err(e) => Outcome::OutOfModel(e),
            },
            Err(e) => classify_err(e),
        }
    });
    match r {
        Ok(o) => o,
        Err(p) => Outcome::Panic(panic_text(p)),
    }
}

fn shape_class(m: &Msg) -> String {
    // coarse description of what kind of well-formed message failed (for violation classes)
    let mut f = vec![];
    let tags: Vec<u8> = m.groups.iter().map(|g| g.tag).collect();
    if tags.first() != Some(&TAG_OPERATION) {
        f.push("op-not-first");
    }
    let mut sorted = tags.clone();
    sorted.dedup();
    let mut uniq = tags.clone();
    uniq.sort();
    uniq.dedup();
    if uniq.len() != tags.len() {
        f.push("repeated-group");
    }
    if m.groups.iter().any(|g| g.attrs.is_empty()) {
        f.push("empty-group");
    }
    fn walk(v: &Val, f: &mut Vec<&'static str>) {
        if let Val::Coll(ms) = v {
            f.push("collection");
            for (_, vs) in ms {
                if vs.len() > 1 {
                    f.push("multi-valued-member");
                }
                for x in vs {
                    walk(x, f);
                }
            }
        }
    }
    for g in &m.groups {
        for a in &g.attrs {
            if a.values.len() > 1 {
                f.push("set");
                let t0 = a.values[0].tag();
                if a.values.iter().any(|v| v.tag() != t0) {
                    f.push("mixed-set");
                }
            }
            for v in &a.values {
                walk(v, &mut f);
            }
        }
    }
    f.sort();
    f.dedup();
    f.join("+")
}

/// the positive rule on one wire message that R1 accepts
fn check_accepted(bytes: &[u8], reference: &Msg, st: &mut Stats, origin: &str) {
    st.traces += 1;
    st.states.insert(fnv(bytes));
    if reference.groups.iter().any(|g| !g.attrs.is_empty()) {
        st.nontrivial.insert(fnv(bytes));
    }
    let mut bad: Option<(String, String)> = None;
    for (entry, out) in [("parse", parse_blocking(bytes)), ("parse_parts", parse_parts_blocking(bytes))] {
        match out {
            Outcome::Ok(got) => {
                if let Some(d) = r1::msg_matches(reference, &got) {
                    bad = Some((format!("{}:misread:{}", entry, shape_class(reference)), format!("{}({}) {}", entry, hex(&bytes[..bytes.len().min(120)]), d)));
                    break;
                }
            }
            other => {
                bad = Some((
                    format!("{}:{}:{}", entry, other.class(), shape_class(reference)),
                    format!("{}({}) -> {} but the message is well-formed", entry, hex(&bytes[..bytes.len().min(120)]), other.brief()),
                ));
                break;
            }
        }
    }
    match bad {
        None => st.outcome("read-as-reference"),
        Some((c, d)) => {
            st.outcome("misread-or-rejected");
            st.violate(c, d, json!({"origin": origin, "bytes": hex(bytes), "rule": "accept"}));
        }
    }
}

/// the rejection rule: the message must be rejected (any error), never accepted and never a panic
fn check_rejected(bytes: &[u8], st: &mut Stats, origin: &str, tagbyte: u8) {
    st.traces += 1;
    match parse_blocking(bytes) {
        Outcome::Ok(_) | Outcome::OutOfModel(_) => {
            st.outcome("accepted-invalid-tag");
            st.violate(
                "accepted-invalid-tag",
                format!("byte {:#04x} at a tag position was not rejected: {}", tagbyte, hex(&bytes[..bytes.len().min(120)])),
                json!({"origin": origin, "bytes": hex(bytes), "rule": "reject"}),
            );
        }
        Outcome::Panic(p) => {
            st.outcome("panic");
            st.violate("reject-panic", format!("panic {} on {}", p, hex(&bytes[..bytes.len().min(120)])), json!({"origin": origin, "bytes": hex(bytes), "rule": "reject"}));
        }
        _ => st.outcome("rejected"),
    }
}

/// two decoupled tree spaces: (a) group structure (any order / repetition / emptiness) with small
/// values, (b) value structure (sets, members, nesting) inside one group
fn wire_bounds(tier: Tier) -> [SkelBounds; 2] {
    let groups = SkelBounds {
        max_groups: tier.pick(3, 4),
        max_attrs: 2,
        max_set: 2,
        max_members: 1,
        max_depth: 1,
        budget: tier.pick(3, 4),
        op_first: false,
        header: Some(0),
    };
    let values = SkelBounds {
        max_groups: 1,
        max_attrs: 2,
        max_set: 3,
        max_members: tier.pick(2, 3),
        max_depth: tier.pick(4, 6),
        budget: tier.pick(5, 7),
        op_first: false,
        header: Some(1),
    };
    [groups, values]
}

/// wire-level atoms: every tag 0x10..=0x4a with syntactically valid bodies at boundary lengths,
/// including text that is not valid UTF-8
fn wire_atoms(tier: Tier) -> Vec<Val> {
    let mut v = atoms();
    let bad_texts: [&[u8]; 5] = [b"B\xfcro", b"\x80", b"ab\xf0\x9f\x98", b"\xc3\x28x", b"\xff\xfe\xfd"];
    for b in bad_texts {
        v.push(Val::Octets(b.to_vec()));
        for t in STR_TAGS {
            v.push(Val::Str(t, b.to_vec()));
        }
        v.push(Val::TextLang(b.to_vec(), b"t".to_vec()));
        v.push(Val::TextLang(b"en".to_vec(), b.to_vec()));
        v.push(Val::NameLang(b.to_vec(), b.to_vec()));
    }
    let lens: &[usize] = tier.pick(&[0, 1, 255, 256][..], &[0, 1, 255, 256, 65535][..]);
    for &l in lens {
        let body = vec![b'q'; l];
        v.push(Val::Octets(body.clone()));
        for t in STR_TAGS {
            v.push(Val::Str(t, body.clone()));
        }
        for t in unclaimed_tags() {
            v.push(Val::Unknown(t, body.clone()));
        }
        if l >= 4 {
            v.push(Val::TextLang(vec![b'l'; (l - 4) / 2], vec![b't'; l - 4 - (l - 4) / 2]));
        }
    }
    v
}

pub fn run(ctx: &Ctx) -> ! {
    silence_panics();
    let mut rep = Report::new(
        ctx,
        "model_checking",
        "(i) every sequence of <= k tokens of the 16-token wire alphabet after a valid header, partitioned by the strict reference decoder R1 into well-formed / not; every well-formed one is executed on IppParser::parse and parse_parts and compared with R1's reading (groups in wire order, attribute in the most recent group, scalar vs ordered set, collections as name->values maps, lossy text); (ii) wire trees generated from the RFC 8010 grammar with free group order (repeated/empty groups, operation not first), mixed sets, multi-valued members, sets of collections, nesting, every tag 0x10-0x4a at boundary lengths, invalid UTF-8 in text and names, encoded by the reference encoder; (iii) every byte of {0x00, 0x0b-0x0f, 0x4b-0xff} substituted at every tag position of every corpus message must be rejected; (iv) every periodic family header.p.u^n.v^n.end (|p|<=1, |u|<=2, |v|<=1) at n = 40, 130, 300 (1000) repetitions that R1 accepts (nesting <= 128) - hundreds of groups, attributes, members, set elements before the tokens under test; (v) non-initial states: for every word u of 1-2 tokens and n = 130, 300 (40..1000), header.u^n followed by EVERY token sequence of <= 3 tokens as continuation, executed whenever R1 accepts the whole message; (vi) tricky texts and names: 70 .. 33 000 octets of 2-/3-/4-octet characters at every alignment, whole and cut inside a character, as attribute name, text value, language of a textWithLanguage and member name; pairs of distinct names that collide under a normalisation side by side (group / collection, incl. the empty member name); look-alikes of the specially treated operation attribute names. states = distinct accepted wire messages; transitions = tokens consumed by the reference decoder; non-trivial = accepted message with at least one attribute",
    );
    rep.assume("reference decoder R1 is the independent reading of RFC 8010");
    rep.assume("bytes 0x06-0x0a at a tag position (IANA-assigned group tags this library does not know) are outside the rejection rule: either answer is accepted");

    if let Some(p) = &ctx.replay {
        let (_, case) = vmc::report::load_replay(p);
        let bytes = unhex(case["bytes"].as_str().unwrap_or(""));
        let mut st = Stats::new();
        st.evaluations = 1;
        if case["rule"].as_str() == Some("reject") {
            check_rejected(&bytes, &mut st, "replay", 0);
        } else {
            match r1::decode(&bytes) {
                Ok(m) => check_accepted(&bytes, &m, &mut st, "replay"),
                Err(e) => println!("replay: reference decoder rejects the input ({}); nothing demanded", e.0),
            }
        }
        for v in &st.violations {
            println!("replay: class={} detail={}", v.class, v.detail);
        }
        rep.absorb(st);
        rep.finish();
    }

    // (i) token sequences
    let k = ctx.tier.pick(5, 6);
    let total = tok_space(k);
    let parts = par_range(ctx.threads, total, 4096, Stats::new, |st, idx| {
        let seq = tok_seq(idx);
        let bytes = tok_msg(&seq);
        st.evaluations += 1;
        st.transitions += seq.len() as u64;
        match r1::decode(&bytes) {
            Ok(m) => {
                st.count("well_formed", 1);
                check_accepted(&bytes, &m, st, "tok");
                st.sample(1, || json!({"tokens": tok_names(&seq), "bytes": hex(&bytes)}));
            }
            Err(_) => st.count("not_well_formed", 1),
        }
    });
    let mut s = Stats::new();
    for p in parts {
        s.merge(p);
    }
    rep.section(&format!("token-sequences<= {}", k), s);

    // (ii) grammar trees
    let wb = wire_bounds(ctx.tier);
    let tier = ctx.tier;
    let parts = par_pipeline(
        ctx.threads,
        |emit: &mut dyn FnMut((&'static str, Msg))| {
            for_each_skel(wb[0], |_, m| emit(("tree-groups", m)));
            for_each_skel(wb[1], |_, m| emit(("tree-values", m)));
            for a in wire_atoms(tier) {
                for (ctxname, m) in atom_contexts(&a) {
                    emit((ctxname, m));
                }
            }
            // invalid UTF-8 and boundary-length attribute names
            let names: Vec<Vec<u8>> = vec![b"n\xfc".to_vec(), b"\x80\x81".to_vec(), vec![b'n'; 255], vec![b'n'; 256], vec![b'n'; 65535]];
            for n in &names {
                let mut m = Msg::new(0x0101, 0, 1);
                m.groups.push(Group {
                    tag: TAG_PRINTER,
                    attrs: vec![Attr {
                        name: n.clone(),
                        values: vec![Val::Int(1), Val::Str(T_KEYWORD, b"k".to_vec())],
                    }],
                });
                emit(("name", m));
                // invalid member name
                if n.len() < 300 {
                    let mut m = Msg::new(0x0101, 0, 1);
                    m.groups.push(Group {
                        tag: TAG_PRINTER,
                        attrs: vec![Attr {
                            name: b"c".to_vec(),
                            values: vec![Val::Coll(vec![(n.clone(), vec![Val::Int(1)]), (b"z".to_vec(), vec![Val::NoValue])])],
                        }],
                    });
                    emit(("member-name", m));
                }
            }
            for (_, m) in realistic() {
                emit(("realistic", m));
            }
        },
        Stats::new,
        |st: &mut Stats, (origin, m): (&'static str, Msg)| {
            let bytes = r1::encode(&m);
            st.evaluations += 1;
            st.max_depth = st.max_depth.max(m.max_depth() as u64);
            match r1::decode(&bytes) {
                Ok(d) => {
                    if d != m {
                        eprintln!("MACHINERY-ERROR reference codec is not the identity on {}", m.to_json());
                        std::process::exit(2);
                    }
                    st.transitions += spans(&bytes).len() as u64;
                    check_accepted(&bytes, &d, st, origin);
                    st.sample(1, || json!({"origin": origin, "bytes": hex(&bytes[..bytes.len().min(200)])}));
                }
                Err(e) => {
                    eprintln!("MACHINERY-ERROR generator produced a message the reference decoder rejects: {} on {}", e.0, m.to_json());
                    std::process::exit(2);
                }
            }
        },
    );
    let mut s = Stats::new();
    for p in parts {
        s.merge(p);
    }
    rep.section("grammar-trees", s);

    // (iv) long periodic messages: state accumulated over many tokens (many groups, many attributes, many
    // members, long sets, moderate nesting) must not change how later tokens are read
    let fams: Vec<Periodic> = {
        let mut f = periodic_families(1, 2, 1, 0);
        if ctx.tier == Tier::Thorough {
            f.extend(periodic_families(2, 1, 1, 1).into_iter().filter(|x| x.p.len() == 2 || x.s.len() == 1));
        }
        f
    };
    let sizes: &[usize] = ctx.tier.pick(&[40, 130, 300][..], &[40, 130, 300, 1000][..]);
    let parts = vmc::explore::par_slice(ctx.threads, &fams, Stats::new, |st, _, fam| {
        for &n in sizes {
            // the family is closed by an end tag
            let mut bytes = fam.bytes(n);
            bytes.push(TAG_END);
            st.evaluations += 1;
            match r1::decode(&bytes) {
                Ok(m) => {
                    // the parser documents a nesting limit of 128 collections (fix 163dd12): deeper
                    // well-formed messages are outside what it promises to read
                    if m.max_depth() > 128 {
                        st.count("deeper_than_the_documented_nesting_limit", 1);
                        continue;
                    }
                    st.count("well_formed", 1);
                    st.transitions += (fam.p.len() + n * (fam.u.len() + fam.v.len()) + fam.s.len()) as u64;
                    check_accepted(&bytes, &m, st, "periodic");
                    st.sample(1, || json!({"family": fam.name(), "n": n, "bytes": bytes.len()}));
                }
                Err(_) => st.count("not_well_formed", 1),
            }
        }
    });
    let mut s = Stats::new();
    for p in parts {
        s.merge(p);
    }
    rep.section("long-periodic-messages", s);

    // (v) non-initial states: reach a state by n repetitions of u, then run EVERY short continuation
    let us = tok_words(1, 2);
    let probes: Vec<Vec<usize>> = (0..tok_space(3)).map(tok_seq).collect();
    let ns: &[usize] = ctx.tier.pick(&[130, 300][..], &[40, 130, 300, 1000][..]);
    let prefixes: Vec<Vec<usize>> = if ctx.tier == Tier::Thorough { tok_words(0, 1) } else { vec![vec![]] };
    let mut jobs: Vec<(usize, usize, usize)> = vec![];
    for pi in 0..prefixes.len() {
        for ui in 0..us.len() {
            for ni in 0..ns.len() {
                jobs.push((pi, ui, ni));
            }
        }
    }
    let parts = vmc::explore::par_slice(ctx.threads, &jobs, Stats::new, |st, _, &(pi, ui, ni)| {
        let fam = Periodic { p: prefixes[pi].clone(), u: us[ui].clone(), v: vec![], s: vec![] };
        let n = ns[ni];
        let base = fam.bytes(n);
        // a state from which nothing can be well-formed any more (e.g. a value before any group) is skipped at once
        let mut viable = false;
        for probe in &probes {
            let mut bytes = base.clone();
            for &t in probe {
                bytes.extend_from_slice(tok_bytes(t));
            }
            bytes.push(TAG_END);
            st.evaluations += 1;
            match r1::decode(&bytes) {
                Ok(m) => {
                    viable = true;
                    if m.max_depth() > 128 {
                        st.count("deeper_than_the_documented_nesting_limit", 1);
                        continue;
                    }
                    st.count("well_formed", 1);
                    st.transitions += (n * fam.u.len() + probe.len()) as u64;
                    check_accepted(&bytes, &m, st, "state+continuation");
                    st.sample(1, || json!({"state": format!("[{}] ({})^{}", tok_names(&fam.p), tok_names(&fam.u), n), "continuation": tok_names(probe)}));
                }
                Err(_) => {
                    st.count("not_well_formed", 1);
                    if !viable && probe.len() >= 2 {
                        // no continuation of length <= 1 was well-formed and this one is not either: the state
                        // itself is ill-formed or unclosable within 3 tokens only if longer probes fail too; keep going
                    }
                }
            }
        }
    });
    let mut s = Stats::new();
    for p in parts {
        s.merge(p);
    }
    rep.section("states-then-every-continuation", s);

    // (vi) tricky texts: multi-octet characters at every alignment (whole and cut inside a character) in every text
    // position; names that collide under a normalisation side by side; look-alikes of the specially treated names
    let mut tricky: Vec<(String, Vec<u8>)> = tricky_text_wire(&MULTIBYTE_LENS);
    for pos in 0..3 {
        tricky.extend(ladder_wire(pos));
    }
    let mut twins = name_twins();
    twins.push((b"".to_vec(), b"a".to_vec()));
    for (i, (a, b)) in twins.into_iter().enumerate() {
        for placement in 0..3 {
            if placement < 2 && a.is_empty() {
                continue;
            }
            let pair = vec![
                Attr { name: a.clone(), values: vec![Val::Int(1)] },
                Attr { name: b.clone(), values: vec![Val::Int(2), Val::Str(T_KEYWORD, b"k".to_vec())] },
            ];
            let mut m = Msg::new(0x0200, 0, 9);
            match placement {
                0 => m.groups.push(Group { tag: TAG_OPERATION, attrs: pair }),
                1 => {
                    m.groups.push(Group { tag: TAG_OPERATION, attrs: vec![] });
                    m.groups.push(Group { tag: TAG_PRINTER, attrs: pair });
                }
                _ => m.groups.push(Group {
                    tag: TAG_OPERATION,
                    attrs: vec![Attr { name: b"c".to_vec(), values: vec![Val::Coll(pair.iter().map(|x| (x.name.clone(), x.values.clone())).collect())] }],
                }),
            }
            tricky.push((format!("twins[{},{}]", i, placement), r1::encode(&m)));
        }
    }
    for (i, (k, look)) in special_name_lookalikes().into_iter().enumerate() {
        for with_exact in [false, true] {
            let mut attrs = vec![Attr { name: look.clone(), values: vec![Val::Int(5)] }];
            if with_exact {
                attrs.push(Attr { name: SPECIAL_NAMES[k].as_bytes().to_vec(), values: vec![Val::Int(6)] });
            }
            let mut m = Msg::new(0x0101, 0x0008, 9);
            m.groups.push(Group { tag: TAG_OPERATION, attrs });
            tricky.push((format!("lookalike[{},{}]", i, with_exact), r1::encode(&m)));
        }
    }
    let parts = vmc::explore::par_slice(ctx.threads, &tricky, Stats::new, |st, _, (name, bytes)| {
        st.evaluations += 1;
        match r1::decode(bytes) {
            Ok(m) => {
                st.transitions += 1;
                check_accepted(bytes, &m, st, name);
                st.sample(1, || json!({"input": name, "bytes": bytes.len()}));
            }
            Err(e) => {
                eprintln!("MACHINERY-ERROR the reference decoder rejects its own tricky message {}: {:?}", name, e);
                std::process::exit(2);
            }
        }
    });
    let mut s = Stats::new();
    for p in parts {
        s.merge(p);
    }
    rep.section("tricky-texts-and-names", s);

    // (iii) rejection rule
    let mut reject: Vec<u8> = vec![0x00];
    reject.extend(0x0b..=0x0f);
    reject.extend(0x4b..=0xff);
    let corpus = corpus();
    let parts = vmc::explore::par_slice(ctx.threads, &corpus, Stats::new, |st, _, (name, bytes)| {
        for sp in spans(bytes) {
            for &t in &reject {
                let mut m = bytes.clone();
                m[sp.start] = t;
                st.evaluations += 1;
                st.transitions += 1;
                check_rejected(&m, st, name, t);
            }
        }
    });
    let mut s = Stats::new();
    for p in parts {
        s.merge(p);
    }
    s.sample(1, || json!({"rule": "reject", "example": "corpus message with one tag byte replaced by every byte of {00,0b-0f,4b-ff}"}));
    rep.section("rejection-rule", s);
    rep.set("k_tokens", json!(k));
    rep.set("wire_bounds", json!(format!("{:?}", wb)));
    rep.finish()
}

#[allow(dead_code)]
fn unused(_: Json) {}
