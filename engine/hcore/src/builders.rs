//! C09 (mandatory operation attributes first, RFC 8011 order, under every iteration order) and
//! C10 (operation builders produce exactly the request their arguments describe; oracle R4).

use crate::adapter::*;
use ipp::operation::cups::{CupsDeletePrinter, CupsGetPrinters};
use ipp::operation::*;
use ipp::prelude::*;
use std::collections::{BTreeMap, BTreeSet};
use std::io::Cursor;
use vmc::explore::Chooser;
use vmc::r1::{self, CMsg, Val};
use vmc::report::{Ctx, Report, Stats};
use vmc::{fnv, hex, json, Json};

// ------------------------------------------------------------------ shared argument domains

const OPS: [&str; 10] = [
    "Print-Job",
    "Get-Printer-Attributes",
    "Create-Job",
    "Send-Document",
    "Purge-Jobs",
    "Cancel-Job",
    "Get-Job-Attributes",
    "Get-Jobs",
    "CUPS-Get-Printers",
    "CUPS-Delete-Printer",
];
const OP_CODES: [u16; 10] = [0x0002, 0x000b, 0x0005, 0x0006, 0x0012, 0x0008, 0x0009, 0x000a, 0x4002, 0x4004];

fn strings() -> Vec<String> {
    vec!["".into(), "a".into(), "ü€𝄞".into(), "x".repeat(255), "ü".repeat(128), "x".repeat(1023)]
}
const JOB_IDS: [i32; 7] = [i32::MIN, -1, 0, 1, 255, 65536, i32::MAX];

fn job_attr(i: u32) -> (String, Vec<Val>) {
    match i {
        0 => ("copies".into(), vec![Val::Int(1)]),
        1 => ("copies".into(), vec![Val::Int(2)]),
        2 => ("sides".into(), vec![Val::Str(r1::T_KEYWORD, b"two-sided-long-edge".to_vec())]),
        _ => (
            "media-col".into(),
            vec![Val::Coll(vec![
                (b"media-source".to_vec(), vec![Val::Str(r1::T_KEYWORD, b"main".to_vec())]),
                (b"media-size".to_vec(), vec![Val::Coll(vec![(b"x-dimension".to_vec(), vec![Val::Int(21000)])])]),
            ])],
        ),
    }
}
fn job_attr_lists() -> Vec<Vec<u32>> {
    vec![vec![], vec![0, 2], vec![1, 0], vec![3, 3, 2]]
}
fn requested_lists() -> Vec<Vec<&'static str>> {
    vec![vec![], vec!["printer-state"], vec!["all", "media-col-database"], vec!["a", "b", "a"]]
}
const REQ_WORDS: [&str; 3] = ["printer-state", "", "ü"];

/// (uri text, expected canonical printer-uri)
fn uris() -> Vec<(&'static str, &'static str)> {
    vec![
        ("ipp://h/p", "ipp://h/p"),
        ("http://user:pw@printer.example.com:631/printers/a%20b?q=1", "ipp://printer.example.com:631/printers/a%20b"),
        ("ipps://[::1]:8443/ipp/print", "ipp://[::1]:8443/ipp/print"),
        ("https://HOST", "ipp://host/"),
        ("ipp://1.2.3.4:1/", "ipp://1.2.3.4:1/"),
        ("ipp://u@h:65535/a//b;c=d?x", "ipp://h:65535/a//b;c=d"),
        ("ipps://printer.example.com/~x/", "ipp://printer.example.com/~x/"),
        ("http://[2001:db8::1]/p", "ipp://[2001:db8::1]/p"),
    ]
}

/// same printer-uri (scheme ipps also accepted for a TLS target, as C13 states): host compared ignoring ASCII case, "" == "/" as path, everything else exact
fn uri_equiv(want: &str, have: &str, tls_target: bool) -> bool {
    match (vmc::uri::split(want), vmc::uri::split(have)) {
        (Some(a), Some(b)) => {
            let p = |s: &str| if s.is_empty() { "/".to_string() } else { s.to_string() };
            (a.scheme == b.scheme || (a.scheme == "ipp" && b.scheme == "ipps" && tls_target)) && a.userinfo == b.userinfo && a.host.eq_ignore_ascii_case(&b.host) && a.port == b.port && p(&a.path) == p(&b.path) && a.query == b.query
        }
        _ => false,
    }
}

fn to_attr(a: &(String, Vec<Val>)) -> IppAttribute {
    IppAttribute::new(&a.0, to_ipp_value(&a.1))
}

fn payload_src(kind: u32, seed: u64) -> (IppPayload, Vec<u8>) {
    match kind {
        0 => (IppPayload::empty(), vec![]),
        1 => (IppPayload::new(Cursor::new(b"%PDF\x03".to_vec())), b"%PDF\x03".to_vec()),
        2 => {
            let b = vmc::gen::payload_big(seed);
            (IppPayload::new(Cursor::new(b.clone())), b)
        }
        3 => (IppPayload::new_async(futures_util::io::Cursor::new(b"%PDF\x03".to_vec())), b"%PDF\x03".to_vec()),
        _ => {
            let b = vmc::gen::payload_big(seed ^ 1);
            (IppPayload::new_async(futures_util::io::Cursor::new(b.clone())), b)
        }
    }
}

// ------------------------------------------------------------------ R4: the builder spec

#[derive(Clone, Debug, Default)]
struct Spec {
    op: usize,
    uri: usize,
    user: Option<String>,
    title: Option<String>,
    job_attrs: Vec<(String, Vec<Val>)>,
    requested: Vec<String>,
    job_id: i32,
    last: bool,
    payload_kind: u32,
    direct: bool,
    trace: Vec<String>,
}

impl Spec {
    /// the request RFC 8011 §4.2-4.3 and the property statement imply
    fn expected(&self, payload: &[u8]) -> CMsg {
        let s = |t: u8, x: &str| vec![Val::Str(t, x.as_bytes().to_vec())];
        let mut op: BTreeMap<Vec<u8>, Vec<Val>> = BTreeMap::new();
        op.insert(b"attributes-charset".to_vec(), s(r1::T_CHARSET, "utf-8"));
        op.insert(b"attributes-natural-language".to_vec(), s(r1::T_NATLANG, "en"));
        let has_uri = self.op != 8;
        if has_uri {
            op.insert(b"printer-uri".to_vec(), s(r1::T_URI, uris()[self.uri].1));
        }
        let takes_user = matches!(self.op, 0 | 3 | 4 | 5 | 6 | 7);
        if takes_user {
            if let Some(u) = &self.user {
                op.insert(b"requesting-user-name".to_vec(), s(r1::T_NAME, u));
            }
        }
        if matches!(self.op, 0 | 2) {
            if let Some(t) = &self.title {
                op.insert(b"job-name".to_vec(), s(r1::T_NAME, t));
            }
        }
        if matches!(self.op, 3 | 5 | 6) {
            op.insert(b"job-id".to_vec(), vec![Val::Int(self.job_id)]);
        }
        if self.op == 3 {
            op.insert(b"last-document".to_vec(), vec![Val::Bool(self.last)]);
        }
        if self.op == 1 && !self.requested.is_empty() {
            op.insert(
                b"requested-attributes".to_vec(),
                self.requested.iter().map(|w| Val::Str(r1::T_KEYWORD, w.as_bytes().to_vec())).collect(),
            );
        }
        let mut groups = vec![(r1::TAG_OPERATION, op)];
        if matches!(self.op, 0 | 2) && !self.job_attrs.is_empty() {
            let mut job = BTreeMap::new();
            for (n, v) in &self.job_attrs {
                job.insert(n.as_bytes().to_vec(), v.iter().map(|x| x.canon()).collect()); // last one given wins
            }
            groups.push((r1::TAG_JOB, job));
        }
        CMsg {
            version: 0x0101,
            code: OP_CODES[self.op],
            request_id: 1,
            groups,
            data: if matches!(self.op, 0 | 3) { payload.to_vec() } else { vec![] },
        }
    }
}

/// run one program: choices decide the operation's builder calls; returns the model and the built request
fn program(ch: &mut Chooser, op: usize, max_calls: u32, seed: u64) -> (Spec, IppRequestResponse, Vec<u8>) {
    let mut sp = Spec {
        op,
        last: true,
        job_id: 1,
        ..Default::default()
    };
    let strs = strings();
    // phase 0: which dimension this program explores besides the call sequence
    // 0: call sequences (uri 0, payload 0)   1: uri sweep (no calls)   2: payload sweep (<=1 call)   3: direct constructors
    let mode = ch.choose(4);
    let mut calls_allowed = max_calls;
    match mode {
        1 => {
            sp.uri = ch.choose(uris().len() as u32) as usize;
            calls_allowed = 0;
        }
        2 => {
            sp.payload_kind = if matches!(op, 0 | 3) { ch.choose(5) } else { 0 };
            calls_allowed = 1;
        }
        3 => {
            sp.direct = true;
            calls_allowed = 0;
        }
        _ => {}
    }
    if matches!(op, 3 | 5 | 6) {
        sp.job_id = JOB_IDS[ch.choose(JOB_IDS.len() as u32) as usize];
    }
    let uri: Uri = uris()[sp.uri].0.parse().expect("uri");
    let (payload, payload_bytes) = payload_src(sp.payload_kind, seed);
    let ncalls = if calls_allowed == 0 { 0 } else { ch.choose(calls_allowed + 1) };

    macro_rules! pick_str {
        () => {
            strs[ch.choose(strs.len() as u32) as usize].clone()
        };
    }
    let req: IppRequestResponse = match op {
        0 => {
            if sp.direct {
                let u = if ch.flag() { Some(pick_str!()) } else { None };
                let t = if ch.flag() { Some(pick_str!()) } else { None };
                let mut o = PrintJob::new(uri, payload, u.as_ref(), t.as_ref());
                sp.user = u;
                sp.title = t;
                for i in job_attr_lists()[ch.choose(4) as usize].iter() {
                    let a = job_attr(*i);
                    o.add_attribute(to_attr(&a));
                    sp.job_attrs.push(a);
                }
                sp.trace.push("PrintJob::new + add_attribute".into());
                o.into_ipp_request()
            } else {
                let mut b = IppOperationBuilder::print_job(uri, payload);
                for _ in 0..ncalls {
                    match ch.choose(4) {
                        0 => {
                            let s = pick_str!();
                            sp.trace.push(format!("user_name({:?})", s.chars().take(8).collect::<String>()));
                            b = b.user_name(&s);
                            sp.user = Some(s);
                        }
                        1 => {
                            let s = pick_str!();
                            sp.trace.push(format!("job_title({:?})", s.chars().take(8).collect::<String>()));
                            b = b.job_title(&s);
                            sp.title = Some(s);
                        }
                        2 => {
                            let a = job_attr(ch.choose(4));
                            sp.trace.push(format!("attribute({})", a.0));
                            b = b.attribute(to_attr(&a));
                            sp.job_attrs.push(a);
                        }
                        _ => {
                            let l = &job_attr_lists()[ch.choose(4) as usize];
                            sp.trace.push(format!("attributes({:?})", l));
                            let attrs: Vec<(String, Vec<Val>)> = l.iter().map(|i| job_attr(*i)).collect();
                            b = b.attributes(attrs.iter().map(to_attr).collect::<Vec<_>>());
                            sp.job_attrs.extend(attrs);
                        }
                    }
                }
                b.build().into_ipp_request()
            }
        }
        1 => {
            if sp.direct {
                let l = &requested_lists()[ch.choose(4) as usize];
                sp.requested = l.iter().map(|s| s.to_string()).collect();
                sp.trace.push(format!("GetPrinterAttributes::with_attributes({:?})", l));
                if l.is_empty() && ch.flag() {
                    GetPrinterAttributes::new(uri).into_ipp_request()
                } else {
                    GetPrinterAttributes::with_attributes(uri, l).into_ipp_request()
                }
            } else {
                let mut b = IppOperationBuilder::get_printer_attributes(uri);
                for _ in 0..ncalls {
                    if ch.flag() {
                        let w = REQ_WORDS[ch.choose(3) as usize];
                        sp.trace.push(format!("attribute({:?})", w));
                        b = b.attribute(w);
                        sp.requested.push(w.to_string());
                    } else {
                        let l = &requested_lists()[ch.choose(4) as usize];
                        sp.trace.push(format!("attributes({:?})", l));
                        b = b.attributes(l);
                        sp.requested.extend(l.iter().map(|s| s.to_string()));
                    }
                }
                b.build().into_ipp_request()
            }
        }
        2 => {
            if sp.direct {
                let t = if ch.flag() { Some(pick_str!()) } else { None };
                let mut o = CreateJob::new(uri, t.as_ref());
                sp.title = t;
                for i in job_attr_lists()[ch.choose(4) as usize].iter() {
                    let a = job_attr(*i);
                    o.add_attribute(to_attr(&a));
                    sp.job_attrs.push(a);
                }
                sp.trace.push("CreateJob::new + add_attribute".into());
                o.into_ipp_request()
            } else {
                let mut b = IppOperationBuilder::create_job(uri);
                for _ in 0..ncalls {
                    match ch.choose(3) {
                        0 => {
                            let s = pick_str!();
                            sp.trace.push(format!("job_name({:?})", s.chars().take(8).collect::<String>()));
                            b = b.job_name(&s);
                            sp.title = Some(s);
                        }
                        1 => {
                            let a = job_attr(ch.choose(4));
                            sp.trace.push(format!("attribute({})", a.0));
                            b = b.attribute(to_attr(&a));
                            sp.job_attrs.push(a);
                        }
                        _ => {
                            let l = &job_attr_lists()[ch.choose(4) as usize];
                            sp.trace.push(format!("attributes({:?})", l));
                            let attrs: Vec<(String, Vec<Val>)> = l.iter().map(|i| job_attr(*i)).collect();
                            b = b.attributes(attrs.iter().map(to_attr).collect::<Vec<_>>());
                            sp.job_attrs.extend(attrs);
                        }
                    }
                }
                b.build().into_ipp_request()
            }
        }
        3 => {
            if sp.direct {
                let u = if ch.flag() { Some(pick_str!()) } else { None };
                sp.last = ch.flag();
                sp.user = u.clone();
                sp.trace.push(format!("SendDocument::new(last={})", sp.last));
                SendDocument::new(uri, sp.job_id, payload, u.as_ref(), sp.last).into_ipp_request()
            } else {
                let mut b = IppOperationBuilder::send_document(uri, sp.job_id, payload);
                for _ in 0..ncalls {
                    if ch.flag() {
                        let s = pick_str!();
                        sp.trace.push(format!("user_name({:?})", s.chars().take(8).collect::<String>()));
                        b = b.user_name(&s);
                        sp.user = Some(s);
                    } else {
                        let l = ch.flag();
                        sp.trace.push(format!("last({})", l));
                        b = b.last(l);
                        sp.last = l;
                    }
                }
                b.build().into_ipp_request()
            }
        }
        4 | 5 | 6 | 7 => {
            // user_name is the only setter
            let mut names: Vec<String> = vec![];
            for _ in 0..ncalls {
                names.push(pick_str!());
            }
            let direct_user = if sp.direct && ch.flag() { Some(pick_str!()) } else { None };
            for n in &names {
                sp.trace.push(format!("user_name({:?})", n.chars().take(8).collect::<String>()));
            }
            sp.user = if sp.direct { direct_user.clone() } else { names.last().cloned() };
            match (op, sp.direct) {
                (4, true) => PurgeJobs::new(uri, direct_user).into_ipp_request(),
                (5, true) => CancelJob::new(uri, sp.job_id, direct_user).into_ipp_request(),
                (6, true) => GetJobAttributes::new(uri, sp.job_id, direct_user).into_ipp_request(),
                (7, true) => GetJobs::new(uri, direct_user).into_ipp_request(),
                (4, false) => names.iter().fold(IppOperationBuilder::purge_jobs(uri), |b, n| b.user_name(n)).build().into_ipp_request(),
                (5, false) => names.iter().fold(IppOperationBuilder::cancel_job(uri, sp.job_id), |b, n| b.user_name(n)).build().into_ipp_request(),
                (6, false) => names.iter().fold(IppOperationBuilder::get_job_attributes(uri, sp.job_id), |b, n| b.user_name(n)).build().into_ipp_request(),
                _ => names.iter().fold(IppOperationBuilder::get_jobs(uri), |b, n| b.user_name(n)).build().into_ipp_request(),
            }
        }
        8 => {
            if sp.direct {
                CupsGetPrinters::new().into_ipp_request()
            } else {
                IppOperationBuilder::cups().get_printers().into_ipp_request()
            }
        }
        _ => {
            if sp.direct {
                CupsDeletePrinter::new(uri).into_ipp_request()
            } else {
                IppOperationBuilder::cups().delete_printer(uri).into_ipp_request()
            }
        }
    };
    (sp, req, payload_bytes)
}

fn c10_judge(sp: &Spec, req: IppRequestResponse, payload: &[u8]) -> Result<u64, (String, String)> {
    let mut exp = sp.expected(payload);
    let name = OPS[sp.op];
    let head = req.to_bytes().to_vec();
    let header = req.header().clone();
    let attrs = req.attributes().clone();
    // payload attached unmodified (read through the blocking interface)
    let got_payload = read_all(req.into_payload()).map_err(|e| (format!("{}:payload-read", name), e))?;
    let mut got = cmsg_from_parts(&header, &attrs, got_payload).map_err(|e| (format!("{}:out-of-model", name), e))?;
    if got.request_id == 0 {
        return Err((format!("{}:request-id", name), "request-id is 0 (must be positive)".into()));
    }
    got.request_id = 1;
    // printer-uri is judged component-wise by the C13 oracle, then aligned
    if sp.op != 8 {
        let key = b"printer-uri".to_vec();
        let want = exp.groups[0].1.get(&key).cloned();
        let have = got.groups.first().and_then(|g| g.1.get(&key)).cloned();
        match (&want, &have) {
            (Some(w), Some(h)) => {
                if let (Some(Val::Str(r1::T_URI, wb)), [Val::Str(r1::T_URI, hb)]) = (w.first(), &h[..]) {
                    let ws = String::from_utf8_lossy(wb).to_string();
                    let hs = String::from_utf8_lossy(hb).to_string();
                    let same = uri_equiv(&ws, &hs, uris()[sp.uri].0.starts_with("https") || uris()[sp.uri].0.starts_with("ipps"));
                    if !same {
                        return Err((format!("{}:printer-uri", name), format!("printer-uri {} instead of {} for target {}", hs, ws, uris()[sp.uri].0)));
                    }
                    exp.groups[0].1.insert(key.clone(), h.clone());
                }
            }
            _ => {}
        }
    }
    // charset: utf-8 in any letter case; natural language: any non-empty tag
    for (k, tag) in [(b"attributes-charset".to_vec(), r1::T_CHARSET), (b"attributes-natural-language".to_vec(), r1::T_NATLANG)] {
        if let Some(h) = got.groups.first().and_then(|g| g.1.get(&k)).cloned() {
            if let [Val::Str(t, v)] = &h[..] {
                let ok = *t == tag && !v.is_empty() && (tag != r1::T_CHARSET || v.eq_ignore_ascii_case(b"utf-8"));
                if ok {
                    exp.groups[0].1.insert(k.clone(), h.clone());
                }
            }
        }
    }
    if let Some(d) = exp.diff(&got) {
        return Err((format!("{}:request-differs", name), format!("{} after {:?}: {}", name, sp.trace, d)));
    }
    // and the same again on the wire
    let dec = r1::decode(&head).map_err(|e| (format!("{}:malformed", name), e.0))?;
    let mut wire = dec.canon();
    wire.request_id = 1;
    wire.data = got.data.clone();
    if let Some(d) = got.diff(&wire) {
        return Err((format!("{}:wire-differs", name), format!("{} after {:?}: encoded request differs from the in-memory one: {}", name, sp.trace, d)));
    }
    Ok(fnv(&head))
}

pub fn run_c10(ctx: &Ctx) -> ! {
    silence_panics();
    let mut rep = Report::new(
        ctx,
        "model_checking",
        "for each of the 10 operations: EVERY sequence of <= 4 (5) builder calls over its setter alphabet (single-valued setters repeated, attribute/attributes interleaved) with arguments from strings {\"\", a, ü€𝄞, 255 x, 128 ü (256 octets), 1023 x}, job-id {MIN,-1,0,1,255,65536,MAX}, last {unset,true,false}, requested-attribute lists of length 0..3 (with duplicate, exactly one), job attributes incl. a nested collection and duplicates; plus a target-URI sweep (8 forms), a payload sweep (none / 5 B / 70 000 B; blocking and async source), the direct constructors, and the raw request/response constructors with every version constant; plus long argument lists: 5 .. 300 job attributes over 3 / 7 / n/2+1 / n distinct names (value = position) through attributes(list), attribute() x n and add_attribute() x n for Print-Job and Create-Job, and 5 .. 300 requested attribute names with repeats for Get-Printer-Attributes. Oracle R4 (written from the property statement and RFC 8011 4.2-4.3): exact operation code, version 1.1, request-id >= 1, exact groups/attributes/syntaxes/order of requested-attributes, last-wins job attributes, nothing else, payload octets identical; and the same again after to_bytes() -> R1.decode. states = distinct encoded requests; transitions = builder calls; non-trivial = at least one builder call or non-default argument",
    );
    let max_calls = ctx.tier.pick(4u32, 5u32);
    let seed = ctx.seed;

    let run_choices = |choices: &[u32], op: usize, st: &mut Stats| {
        let mut ch = Chooser::new(choices.to_vec());
        let r = std::panic::catch_unwind(std::panic::AssertUnwindSafe(|| {
            let (sp, req, payload) = program(&mut ch, op, max_calls, seed);
            let verdict = c10_judge(&sp, req, &payload);
            (sp, verdict)
        }));
        st.evaluations += 1;
        st.traces += 1;
        let case = json!({"op": op, "choices": choices});
        match r {
            Ok((sp, verdict)) => {
                st.transitions += sp.trace.len() as u64;
                st.max_depth = st.max_depth.max(sp.trace.len() as u64);
                if !sp.trace.is_empty() || sp.uri != 0 || sp.payload_kind != 0 {
                    st.nontrivial.insert(fnv(format!("{}{:?}", op, choices).as_bytes()));
                }
                match verdict {
                    Ok(h) => {
                        st.states.insert(h);
                        st.outcome(OPS[op]);
                        st.sample(3, || json!({"op": OPS[op], "calls": sp.trace, "uri": uris()[sp.uri].0, "payload_kind": sp.payload_kind}));
                    }
                    Err((c, d)) => {
                        st.outcome("wrong");
                        st.violate(c, d, case);
                    }
                }
            }
            Err(p) => {
                st.outcome("panic");
                st.violate(format!("{}:panic", OPS[op]), panic_text(p), case);
            }
        }
        ch
    };

    if let Some(p) = &ctx.replay {
        let (_, j) = vmc::report::load_replay(p);
        let mut st = Stats::new();
        if j["long_list"].as_bool() == Some(true) {
            let g = |k: &str| j[k].as_u64().unwrap_or(0) as usize;
            long_list_case(g("op_index"), g("n"), g("k").max(1), g("stride").max(1), g("how") as u32, &mut st);
        } else if let Some(op) = j["op"].as_u64() {
            let choices: Vec<u32> = j["choices"].as_array().map(|a| a.iter().map(|v| v.as_u64().unwrap_or(0) as u32).collect()).unwrap_or_default();
            run_choices(&choices, op as usize, &mut st);
        } else {
            raw_constructors(&mut st);
        }
        for v in &st.violations {
            println!("replay: class={} detail={}", v.class, v.detail);
        }
        rep.absorb(st);
        rep.finish();
    }

    let ops: Vec<usize> = (0..10).collect();
    let parts = vmc::explore::par_slice(ctx.threads, &ops, Stats::new, |st, _, &op| {
        // explorer over the program's choice tree (E1)
        let mut prefix: Vec<u32> = vec![];
        loop {
            let ch = run_choices(&prefix, op, st);
            if ch.diverged {
                eprintln!("MACHINERY-ERROR program diverged while replaying {:?}", prefix);
                std::process::exit(2);
            }
            // next prefix (odometer)
            let tr = &ch.trace;
            let mut next = None;
            for i in (0..tr.len()).rev() {
                if tr[i].c + 1 < tr[i].n {
                    let mut np: Vec<u32> = tr[..i].iter().map(|p| p.c).collect();
                    np.push(tr[i].c + 1);
                    next = Some(np);
                    break;
                }
            }
            match next {
                Some(n) => prefix = n,
                None => break,
            }
        }
    });
    let mut s = Stats::new();
    for p in parts {
        s.merge(p);
    }
    rep.section("builder-call-sequences", s);
    let mut s = Stats::new();
    long_lists(&mut s);
    rep.section("long-argument-lists", s);
    let mut s = Stats::new();
    raw_constructors(&mut s);
    rep.section("raw-constructors", s);
    rep.set("max_calls", json!(max_calls));

    rep.finish()
}

/// long argument lists: n job attributes over k distinct names (value = position, so "the last one given wins" is
/// decidable per name), handed over in one attributes() call / one attribute() call each / add_attribute on the
/// direct constructor; and n requested attribute names with repeats, whose order must be kept
fn long_list_case(op: usize, n: usize, k: usize, stride: usize, how: u32, st: &mut Stats) {
    st.evaluations += 1;
    st.traces += 1;
    st.transitions += n as u64;
    let case = json!({"long_list": true, "op_index": op, "n": n, "k": k, "stride": stride, "how": how});
    let r = std::panic::catch_unwind(|| {
        let uri: Uri = uris()[0].0.parse().expect("uri");
        let mut sp = Spec { op, last: true, job_id: 1, ..Default::default() };
        sp.trace.push(format!("{} x {} names (stride {}) via {}", n, k, stride, ["attributes(list)", "attribute() x n", "add_attribute x n"][how as usize]));
        let names: Vec<String> = (0..n).map(|i| format!("attr-{:03}", (i * stride) % k)).collect();
        let req = match op {
            1 => {
                sp.requested = names.clone();
                let mut b = IppOperationBuilder::get_printer_attributes(uri);
                if how == 0 {
                    b = b.attributes(names.iter().map(|x| x.as_str()).collect::<Vec<_>>());
                } else {
                    for x in &names {
                        b = b.attribute(x);
                    }
                }
                b.build().into_ipp_request()
            }
            _ => {
                let list: Vec<(String, Vec<Val>)> = names.iter().enumerate().map(|(i, x)| (x.clone(), vec![Val::Int(i as i32)])).collect();
                sp.job_attrs = list.clone();
                match (op, how) {
                    (0, 2) => {
                        let mut o = PrintJob::new(uri, IppPayload::empty(), None::<&String>, None::<&String>);
                        for a in &list {
                            o.add_attribute(to_attr(a));
                        }
                        o.into_ipp_request()
                    }
                    (_, 2) => {
                        let mut o = CreateJob::new(uri, None::<&String>);
                        for a in &list {
                            o.add_attribute(to_attr(a));
                        }
                        o.into_ipp_request()
                    }
                    (0, 0) => IppOperationBuilder::print_job(uri, IppPayload::empty()).attributes(list.iter().map(to_attr).collect::<Vec<_>>()).build().into_ipp_request(),
                    (0, _) => {
                        let mut b = IppOperationBuilder::print_job(uri, IppPayload::empty());
                        for a in &list {
                            b = b.attribute(to_attr(a));
                        }
                        b.build().into_ipp_request()
                    }
                    (_, 0) => IppOperationBuilder::create_job(uri).attributes(list.iter().map(to_attr).collect::<Vec<_>>()).build().into_ipp_request(),
                    _ => {
                        let mut b = IppOperationBuilder::create_job(uri);
                        for a in &list {
                            b = b.attribute(to_attr(a));
                        }
                        b.build().into_ipp_request()
                    }
                }
            }
        };
        c10_judge(&sp, req, &[])
    });
    match r {
        Ok(Ok(h)) => {
            st.states.insert(h);
            st.nontrivial.insert(h);
            st.outcome(OPS[op]);
        }
        Ok(Err((c, d))) => st.violate(c, d, case),
        Err(p) => st.violate(format!("{}:panic", OPS[op]), panic_text(p), case),
    }
}

fn long_lists(st: &mut Stats) {
    for op in [0usize, 2, 1] {
        for n in [5usize, 20, 21, 22, 33, 64, 65, 129, 300] {
            for (k, stride) in [(3usize, 1usize), (7, 3), (7, 5), (n, 1), (n / 2 + 1, 1)] {
                for how in 0..3u32 {
                    if op == 1 && how == 2 {
                        continue;
                    }
                    long_list_case(op, n, k, stride, how, st);
                }
            }
        }
    }
}

fn raw_constructors(st: &mut Stats) {
    let versions = [IppVersion::v1_0(), IppVersion::v1_1(), IppVersion::v2_0(), IppVersion::v2_1(), IppVersion::v2_2(), IppVersion(0x0909)];
    let ops = [Operation::PrintJob, Operation::GetPrinterAttributes, Operation::PurgeJobs, Operation::CupsGetPrinters, Operation::CupsCreateLocalPrinter];
    let s = |t: u8, x: &str| vec![Val::Str(t, x.as_bytes().to_vec())];
    for v in versions {
        for op in ops {
            for ui in 0..=uris().len() {
                st.evaluations += 1;
                st.traces += 1;
                let uri: Option<Uri> = if ui == uris().len() { None } else { Some(uris()[ui].0.parse().unwrap()) };
                let req = IppRequestResponse::new(v, op, uri);
                let mut exp_op = BTreeMap::new();
                exp_op.insert(b"attributes-charset".to_vec(), s(r1::T_CHARSET, "utf-8"));
                exp_op.insert(b"attributes-natural-language".to_vec(), s(r1::T_NATLANG, "en"));
                if ui < uris().len() {
                    exp_op.insert(b"printer-uri".to_vec(), s(r1::T_URI, uris()[ui].1));
                }
                let exp = CMsg {
                    version: v.0,
                    code: op as u16,
                    request_id: 1,
                    groups: vec![(r1::TAG_OPERATION, exp_op)],
                    data: vec![],
                };
                let header = req.header().clone();
                let attrs = req.attributes().clone();
                let payload = read_all(req.into_payload()).unwrap_or_default();
                match cmsg_from_parts(&header, &attrs, payload) {
                    Ok(mut got) => {
                        if got.request_id >= 1 {
                            got.request_id = 1;
                        }
                        // accept "ipp://host" == "ipp://host/"
                        if let Some(d) = exp.diff(&got) {
                            let tolerable = ui < uris().len() && d.contains("printer-uri") && {
                                let have = got.groups[0].1.get(&b"printer-uri".to_vec()).cloned();
                                let ok = matches!(have.as_deref(), Some([Val::Str(r1::T_URI, b)]) if uri_equiv(uris()[ui].1, &String::from_utf8_lossy(b), uris()[ui].0.starts_with("https") || uris()[ui].0.starts_with("ipps")));
                                ok && {
                                    let mut e2 = exp.clone();
                                    e2.groups[0].1.insert(b"printer-uri".to_vec(), have.clone().unwrap());
                                    e2.diff(&got).is_none()
                                }
                            };
                            if !tolerable {
                                st.violate("raw-request:differs", format!("IppRequestResponse::new({:?},{:?},uri#{}): {}", v, op, ui, d), json!({"raw": true}));
                            }
                        }
                        st.nontrivial.insert(fnv(format!("{:?}{:?}{}", v, op, ui).as_bytes()));
                        st.states.insert(fnv(format!("{:?}{:?}{}", v, op, ui).as_bytes()));
                        st.outcome("raw-request");
                    }
                    Err(e) => st.violate("raw-request:out-of-model", e, json!({"raw": true})),
                }
            }
        }
        for (status, id) in [(StatusCode::SuccessfulOk, 1u32), (StatusCode::ClientErrorNotFound, 0), (StatusCode::ServerErrorBusy, u32::MAX)] {
            st.evaluations += 1;
            st.traces += 1;
            let resp = IppRequestResponse::new_response(v, status, id);
            let mut exp_op = BTreeMap::new();
            exp_op.insert(b"attributes-charset".to_vec(), s(r1::T_CHARSET, "utf-8"));
            exp_op.insert(b"attributes-natural-language".to_vec(), s(r1::T_NATLANG, "en"));
            let exp = CMsg {
                version: v.0,
                code: status as u16,
                request_id: id,
                groups: vec![(r1::TAG_OPERATION, exp_op)],
                data: vec![],
            };
            match cmsg_from_parts(resp.header(), resp.attributes(), vec![]) {
                Ok(got) => {
                    if let Some(d) = exp.diff(&got) {
                        st.violate("raw-response:differs", format!("new_response({:?},{:?},{}): {}", v, status, id, d), json!({"raw": true}));
                    }
                    st.outcome("raw-response");
                }
                Err(e) => st.violate("raw-response:out-of-model", e, json!({"raw": true})),
            }
        }
    }
    st.sample(1, || json!({"raw": "IppRequestResponse::new / new_response x versions x operations x uris"}));
}

// ------------------------------------------------------------------ C09

const MANDATORY: [&str; 5] = ["attributes-charset", "attributes-natural-language", "printer-uri", "job-uri", "job-id"];

fn addition(i: u32) -> (DelimiterTag, IppAttribute, &'static str) {
    match i {
        0 => (DelimiterTag::OperationAttributes, IppAttribute::new("job-id", IppValue::Integer(7)), "op:job-id"),
        1 => (DelimiterTag::OperationAttributes, IppAttribute::new("job-uri", IppValue::Uri("ipp://h/jobs/7".into())), "op:job-uri"),
        2 => (DelimiterTag::OperationAttributes, IppAttribute::new("requesting-user-name", IppValue::NameWithoutLanguage("u".into())), "op:requesting-user-name"),
        3 => (DelimiterTag::OperationAttributes, IppAttribute::new("aaa", IppValue::Keyword("k".into())), "op:aaa"),
        4 => (DelimiterTag::OperationAttributes, IppAttribute::new("zzz", IppValue::Integer(1)), "op:zzz"),
        5 => (DelimiterTag::OperationAttributes, IppAttribute::new("attributes-charset", IppValue::Charset("utf-8".into())), "op:attributes-charset(again)"),
        6 => (DelimiterTag::JobAttributes, IppAttribute::new("copies", IppValue::Integer(2)), "job:copies"),
        7 => (DelimiterTag::PrinterAttributes, IppAttribute::new("x", IppValue::NoValue), "printer:x"),
        n => {
            let (name, value) = &EXTRA_OP_ATTRS[(n - 8) as usize % EXTRA_OP_ATTRS.len()];
            let v = match *value {
                0 => IppValue::Keyword("k".into()),
                1 => IppValue::Integer(3),
                2 => IppValue::Boolean(true),
                3 => IppValue::Uri("ipp://h/x".into()),
                4 => IppValue::NameWithoutLanguage("n".into()),
                5 => IppValue::TextWithoutLanguage("t".into()),
                7 => IppValue::Enum(3),
                _ => IppValue::MimeMediaType("application/pdf".into()),
            };
            (DelimiterTag::OperationAttributes, IppAttribute::new(*name, v), name)
        }
    }
}
const N_ADD: u32 = 8;

/// every operation attribute RFC 8011 4.2-4.4 (and the CUPS operations) define besides the five that have a fixed
/// position, plus look-alikes of those five: none of them may come between or before the mandatory / target ones
const EXTRA_OP_ATTRS: [(&str, u8); 40] = [
    // the specially placed names themselves, carrying ANOTHER syntax than the RFC gives them (a value parsed from text is a keyword)
    ("job-uri", 0),
    ("printer-uri", 0),
    ("job-id", 7),
    ("job-id", 0),
    ("attributes-charset", 0),
    ("attributes-natural-language", 4),
    ("job-name", 4),
    ("ipp-attribute-fidelity", 2),
    ("document-name", 4),
    ("compression", 0),
    ("document-format", 6),
    ("document-natural-language", 0),
    ("job-k-octets", 1),
    ("job-impressions", 1),
    ("job-media-sheets", 1),
    ("last-document", 2),
    ("document-uri", 3),
    ("requested-attributes", 0),
    ("which-jobs", 0),
    ("my-jobs", 2),
    ("limit", 1),
    ("message", 5),
    ("status-message", 5),
    ("detailed-status-message", 5),
    ("document-access-error", 5),
    ("job-printer-uri", 3),
    ("printer-name", 4),
    ("device-uri", 3),
    ("ppd-name", 4),
    ("printer-type", 1),
    ("first-printer-name", 4),
    ("job-uris", 3),
    ("job-ids", 1),
    ("printer-uri-supported", 3),
    ("Printer-Uri", 3),
    ("JOB-ID", 1),
    ("attributes", 0),
    ("a", 0),
    ("job-id-x", 1),
    ("printer-ur", 3),
];

/// base programs: (name, number of optional-setter subsets)
const BASES: [(&str, u32); 15] = [
    ("print_job", 8),
    ("get_printer_attributes", 3),
    ("create_job", 4),
    ("send_document", 4),
    ("purge_jobs", 2),
    ("cancel_job", 2),
    ("get_job_attributes", 2),
    ("get_jobs", 2),
    ("cups_get_printers", 1),
    ("cups_delete_printer", 1),
    ("raw_request_with_uri", 1),
    ("raw_request_without_uri", 1),
    ("response", 1),
    ("response_with_second_operation_group", 1),
    ("attributes_built_from_scratch_other_group_first", 4),
];

fn c09_build(base: usize, subset: u32, adds: &[u32]) -> IppRequestResponse {
    let uri: Uri = "ipp://h:631/p".parse().unwrap();
    let bit = |i: u32| subset & (1 << i) != 0;
    let mut req = match base {
        0 => {
            let mut b = IppOperationBuilder::print_job(uri, IppPayload::empty());
            if bit(0) {
                b = b.user_name("u");
            }
            if bit(1) {
                b = b.job_title("t");
            }
            if bit(2) {
                b = b.attribute(IppAttribute::new("sides", IppValue::Keyword("one-sided".into())));
            }
            b.build().into_ipp_request()
        }
        1 => {
            let mut b = IppOperationBuilder::get_printer_attributes(uri);
            if subset >= 1 {
                b = b.attribute("printer-state");
            }
            if subset >= 2 {
                b = b.attribute("all");
            }
            b.build().into_ipp_request()
        }
        2 => {
            let mut b = IppOperationBuilder::create_job(uri);
            if bit(0) {
                b = b.job_name("t");
            }
            if bit(1) {
                b = b.attribute(IppAttribute::new("copies", IppValue::Integer(1)));
            }
            b.build().into_ipp_request()
        }
        3 => {
            let mut b = IppOperationBuilder::send_document(uri, 3, IppPayload::empty());
            if bit(0) {
                b = b.user_name("u");
            }
            if bit(1) {
                b = b.last(false);
            }
            b.build().into_ipp_request()
        }
        4 => {
            let mut b = IppOperationBuilder::purge_jobs(uri);
            if bit(0) {
                b = b.user_name("u");
            }
            b.build().into_ipp_request()
        }
        5 => {
            let mut b = IppOperationBuilder::cancel_job(uri, 3);
            if bit(0) {
                b = b.user_name("u");
            }
            b.build().into_ipp_request()
        }
        6 => {
            let mut b = IppOperationBuilder::get_job_attributes(uri, 3);
            if bit(0) {
                b = b.user_name("u");
            }
            b.build().into_ipp_request()
        }
        7 => {
            let mut b = IppOperationBuilder::get_jobs(uri);
            if bit(0) {
                b = b.user_name("u");
            }
            b.build().into_ipp_request()
        }
        8 => IppOperationBuilder::cups().get_printers().into_ipp_request(),
        9 => IppOperationBuilder::cups().delete_printer(uri).into_ipp_request(),
        10 => IppRequestResponse::new(IppVersion::v2_0(), Operation::GetJobs, Some(uri)),
        11 => IppRequestResponse::new(IppVersion::v1_1(), Operation::CupsGetPrinters, None),
        12 => IppRequestResponse::new_response(IppVersion::v1_1(), StatusCode::SuccessfulOk, 5),
        14 => {
            // IppAttributes::new() filled through add() with a job / printer attribute FIRST, so that the operation
            // group is not the first group in memory; installed through attributes_mut()
            let mut a = IppAttributes::new();
            a.add(if bit(0) { DelimiterTag::JobAttributes } else { DelimiterTag::PrinterAttributes }, IppAttribute::new("copies", IppValue::Integer(1)));
            if bit(1) {
                a.add(DelimiterTag::UnsupportedAttributes, IppAttribute::new("u", IppValue::NoValue));
            }
            a.add(DelimiterTag::OperationAttributes, IppAttribute::new("job-id", IppValue::Integer(3)));
            a.add(DelimiterTag::OperationAttributes, IppAttribute::new("printer-uri", IppValue::Uri("ipp://h/p".into())));
            a.add(DelimiterTag::OperationAttributes, IppAttribute::new("attributes-natural-language", IppValue::NaturalLanguage("en".into())));
            a.add(DelimiterTag::OperationAttributes, IppAttribute::new("attributes-charset", IppValue::Charset("utf-8".into())));
            let mut r = IppRequestResponse::new_response(IppVersion::v1_1(), StatusCode::SuccessfulOk, 5);
            *r.attributes_mut() = a;
            r
        }
        _ => {
            // a message that already holds a second, empty operation-attributes group (public API: groups_mut)
            let mut r = IppRequestResponse::new(IppVersion::v1_1(), Operation::GetJobAttributes, Some(uri));
            r.attributes_mut().groups_mut().push(IppAttributeGroup::new(DelimiterTag::OperationAttributes));
            r
        }
    };
    for a in adds {
        let (tag, attr, _) = addition(*a);
        req.attributes_mut().add(tag, attr);
    }
    req
}

fn c09_oracle(bytes: &[u8], in_memory_op_names: &BTreeSet<String>) -> Result<(), (String, String)> {
    let m = r1::decode(bytes).map_err(|e| ("malformed".to_string(), format!("{} in {}", e.0, hex(&bytes[..bytes.len().min(100)]))))?;
    let names = |g: &r1::Group| g.attrs.iter().map(|a| String::from_utf8_lossy(&a.name).to_string()).collect::<Vec<_>>();
    let g0 = m.groups.first().ok_or_else(|| ("no-groups".to_string(), "no attribute group at all".to_string()))?;
    if g0.tag != r1::TAG_OPERATION {
        return Err(("first-group".into(), format!("first group has tag {:#04x}", g0.tag)));
    }
    let n = names(g0);
    let shown = format!("{:?}", n);
    if n.first().map(|s| s.as_str()) != Some("attributes-charset") {
        return Err(("charset-not-first".into(), format!("operation attributes are {}", shown)));
    }
    if n.get(1).map(|s| s.as_str()) != Some("attributes-natural-language") {
        return Err(("language-not-second".into(), format!("operation attributes are {}", shown)));
    }
    // nothing the message holds in its operation groups may be lost (or invented) by the encoder
    let on_wire: BTreeSet<String> = m.groups.iter().filter(|g| g.tag == r1::TAG_OPERATION).flat_map(|g| names(g)).collect();
    if &on_wire != in_memory_op_names {
        let lost: Vec<&String> = in_memory_op_names.difference(&on_wire).collect();
        let extra: Vec<&String> = on_wire.difference(in_memory_op_names).collect();
        return Err(("operation-attributes-lost-or-invented".into(), format!("operation attributes lost on the wire: {:?}, invented: {:?}", lost, extra)));
    }
    let has = |x: &str| n.iter().any(|s| s == x);
    // the mandatory / target attributes belong to the FIRST operation group: one that was pushed into a
    // later operation-attributes group is "present" but not where RFC 8011 4.1.4-4.1.5 puts it
    for (gi, g) in m.groups.iter().enumerate().skip(1) {
        if g.tag == r1::TAG_OPERATION {
            for a in names(g) {
                if MANDATORY.contains(&a.as_str()) && !has(&a) {
                    return Err((
                        format!("{}-in-later-operation-group", a),
                        format!("{} is emitted in operation group #{} instead of the first one (first group: {})", a, gi, shown),
                    ));
                }
            }
        }
    }
    if has("printer-uri") {
        if n.get(2).map(|s| s.as_str()) != Some("printer-uri") {
            return Err(("printer-uri-not-third".into(), format!("operation attributes are {}", shown)));
        }
        if has("job-id") && !has("job-uri") && n.get(3).map(|s| s.as_str()) != Some("job-id") {
            return Err(("job-id-not-fourth".into(), format!("operation attributes are {}", shown)));
        }
    } else if has("job-uri") && n.get(2).map(|s| s.as_str()) != Some("job-uri") {
        return Err(("job-uri-not-third".into(), format!("operation attributes are {}", shown)));
    }
    Ok(())
}

fn fact(n: usize) -> usize {
    (1..=n).product::<usize>().max(1)
}

fn c09_program(base: usize, subset: u32, adds: &[u32], st: &mut Stats) {
    let case = json!({"base": base, "subset": subset, "adds": adds});
    let describe = || format!("{}[subset {:#b}] + {:?}", BASES[base].0, subset, adds.iter().map(|a| addition(*a).2).collect::<Vec<_>>());
    // number of unordered (non-mandatory) operation attributes
    let probe = c09_build(base, subset, adds);
    let remainder = |r: &IppRequestResponse| -> Vec<String> {
        r.attributes()
            .groups_of(DelimiterTag::OperationAttributes)
            .next()
            .map(|g| g.attributes().keys().filter(|k| !MANDATORY.contains(&k.as_str())).cloned().collect())
            .unwrap_or_default()
    };
    let m = remainder(&probe).len();
    if m > 4 {
        st.count("programs_skipped_more_than_4_unordered", 1);
        return;
    }
    st.evaluations += 1;
    st.transitions += adds.len() as u64;
    let want = fact(m);
    let mut seen: BTreeSet<Vec<String>> = BTreeSet::new();
    let cap = 64 * want + 8;
    let mut builds = 0;
    let mut failure: Option<(String, String)> = None;
    while seen.len() < want {
        builds += 1;
        if builds > cap {
            eprintln!("MACHINERY-ERROR iteration-order coverage not reached for {} ({} of {})", describe(), seen.len(), want);
            std::process::exit(2);
        }
        let r = std::panic::catch_unwind(|| {
            let inst = c09_build(base, subset, adds);
            let op_names: BTreeSet<String> = inst
                .attributes()
                .groups_of(DelimiterTag::OperationAttributes)
                .flat_map(|g| g.attributes().keys().cloned().collect::<Vec<_>>())
                .collect();
            (remainder(&inst), inst.to_bytes().to_vec(), op_names)
        });
        match r {
            Ok((order, bytes, op_names)) => {
                if seen.insert(order.clone()) {
                    st.traces += 1;
                    st.states.insert(fnv(&bytes));
                    if failure.is_none() {
                        if let Err((c, d)) = c09_oracle(&bytes, &op_names) {
                            failure = Some((c, format!("{} with in-memory order {:?}: {}", describe(), order, d)));
                        }
                    }
                }
            }
            Err(p) => {
                failure = Some(("panic".into(), panic_text(p)));
                break;
            }
        }
    }
    st.count("builds", builds as u64);
    st.count("orders_observed", seen.len() as u64);
    st.count("orders_possible", want as u64);
    if m >= 2 {
        st.nontrivial.insert(fnv(case.to_string().as_bytes()));
    }
    match failure {
        None => st.outcome("ordered"),
        Some((c, d)) => {
            st.outcome("misordered");
            st.violate(c, d, case);
        }
    }
    st.sample(3, || json!({"program": describe(), "unordered_remainder": m, "orders_observed": seen.len()}));
}

pub fn run_c09(ctx: &Ctx) -> ! {
    silence_panics();
    let mut rep = Report::new(
        ctx,
        "model_checking",
        "programs = {10 operation builders x every subset of their optional setters, raw request constructor with / without URI, response constructor} followed by EVERY sequence of <= 2 (3) further attribute additions from {op:job-id, op:job-uri, op:requesting-user-name, op:aaa, op:zzz, op:attributes-charset again, job:copies, printer:x}, restricted to programs with <= 4 unordered operation attributes; each program is re-run in fresh maps until ALL m! iteration orders of the unordered remainder were observed. Oracle on R1.decode(to_bytes()): first group operation-attributes; 1st attributes-charset, 2nd attributes-natural-language; printer-uri (else job-uri) 3rd when present; job-id 4th when printer-uri and job-id are present (and no job-uri). states = distinct encoded messages; transitions = additions applied; non-trivial = at least 2 unordered attributes",
    );
    rep.assume("HashMap iteration orders are covered by observation: the verdict is issued only when all m! orders were seen (else machinery exit)");
    let max_adds = ctx.tier.pick(2usize, 3usize);
    if let Some(p) = &ctx.replay {
        let (_, j) = vmc::report::load_replay(p);
        let mut st = Stats::new();
        let adds: Vec<u32> = j["adds"].as_array().map(|a| a.iter().map(|v| v.as_u64().unwrap_or(0) as u32).collect()).unwrap_or_default();
        c09_program(j["base"].as_u64().unwrap_or(0) as usize, j["subset"].as_u64().unwrap_or(0) as u32, &adds, &mut st);
        for v in &st.violations {
            println!("replay: class={} detail={}", v.class, v.detail);
        }
        rep.absorb(st);
        rep.finish();
    }
    let mut programs: Vec<(usize, u32, Vec<u32>)> = vec![];
    let mut seqs: Vec<Vec<u32>> = vec![vec![]];
    let mut layer: Vec<Vec<u32>> = vec![vec![]];
    for _ in 0..max_adds {
        let mut next = vec![];
        for s in &layer {
            for a in 0..N_ADD {
                let mut q = s.clone();
                q.push(a);
                next.push(q);
            }
        }
        seqs.extend(next.iter().cloned());
        layer = next;
    }
    for (b, (_, subsets)) in BASES.iter().enumerate() {
        for s in 0..*subsets {
            for q in &seqs {
                programs.push((b, s, q.clone()));
            }
        }
    }
    // every further operation attribute name, alone, after a job-id and before one (so that target attributes and the
    // extra one coincide in the group)
    for (b, (_, subsets)) in BASES.iter().enumerate() {
        for s in 0..*subsets {
            for x in 0..EXTRA_OP_ATTRS.len() as u32 {
                for q in [vec![8 + x], vec![0, 8 + x], vec![8 + x, 0], vec![1, 8 + x]] {
                    programs.push((b, s, q));
                }
            }
        }
    }
    let parts = vmc::explore::par_slice(ctx.threads, &programs, Stats::new, |st, _, (b, s, q)| c09_program(*b, *s, q, st));
    for p in parts {
        rep.absorb(p);
    }
    rep.set("programs", json!(programs.len()));
    rep.finish()
}

#[allow(dead_code)]
fn unused(_: Json) {}
