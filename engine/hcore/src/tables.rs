//! C13 (printer-uri canonicalisation), C14 (transport URL mapping), C16 (registry tables) —
//! complete finite products against R3 / R2.

use crate::adapter::*;
use ipp::prelude::*;
use vmc::explore::par_range;
use vmc::registry as reg;
use vmc::report::{Ctx, Report, Stats};
use vmc::uri::{self, Parts, UriCase};
use vmc::{fnv, json, Json};

fn path_eq(a: &str, b: &str) -> bool {
    let n = |s: &str| if s.is_empty() { "/".to_string() } else { s.to_string() };
    n(a) == n(b)
}

fn reassemble(p: &Parts) -> String {
    let mut s = format!("{}://", p.scheme);
    if let Some(u) = &p.userinfo {
        s.push_str(u);
        s.push('@');
    }
    s.push_str(&p.host);
    if let Some(port) = &p.port {
        s.push(':');
        s.push_str(port);
    }
    s.push_str(&p.path);
    if let Some(q) = &p.query {
        s.push('?');
        s.push_str(q);
    }
    s
}

// ------------------------------------------------------------------------------------ C13

/// oracle for one canonical printer-uri string derived from target `c`
pub fn c13_oracle(c: &UriCase, canon: &str) -> Result<(), (String, String)> {
    let fail = |cls: &str, why: String| Err((cls.to_string(), format!("target {} -> printer-uri {}: {}", c.text, canon, why)));
    let p = match uri::split(canon) {
        Some(p) => p,
        None => return fail("unsplittable", "result is not scheme://authority/path".into()),
    };
    // ('@' is legal in a path: only an '@' inside the AUTHORITY is user-info; the component checks below pin the rest)
    if p.userinfo.is_some() {
        return fail("userinfo-leak", "contains user-info".into());
    }
    if canon.contains('?') || p.query.is_some() {
        return fail("query-leak", "contains a query".into());
    }
    let tls_target = c.scheme == "https" || c.scheme == "ipps";
    if !(p.scheme == "ipp" || (p.scheme == "ipps" && tls_target)) {
        return fail("scheme", format!("scheme {}", p.scheme));
    }
    if !p.host.eq_ignore_ascii_case(c.host) {
        return fail("host", format!("host {} instead of {}", p.host, c.host));
    }
    match (c.port, &p.port) {
        (None, None) => {}
        (Some(a), Some(b)) if b.parse::<u32>().ok() == Some(a as u32) => {}
        (a, b) => return fail("port", format!("port {:?} instead of {:?}", b, a)),
    }
    if !path_eq(&p.path, c.path) {
        return fail("path", format!("path {:?} instead of {:?}", p.path, c.path));
    }
    if reassemble(&p) != canon {
        return fail("extra", "result has components beyond scheme, host, port, path".into());
    }
    for (what, secret) in [("user-info", c.userinfo), ("query", c.query)] {
        if let Some(sec) = secret {
            if !sec.is_empty() && canon.contains(sec) && !c.host.contains(sec) && !c.path.contains(sec) {
                return fail("leak", format!("{} {:?} occurs in the result", what, sec));
            }
        }
    }
    Ok(())
}

fn printer_uri_of(req: &IppRequestResponse) -> Option<String> {
    req.attributes()
        .groups_of(DelimiterTag::OperationAttributes)
        .next()
        .and_then(|g| g.attributes().get(IppAttribute::PRINTER_URI))
        .and_then(|a| a.value().as_uri().cloned())
}

fn constructors(u: &Uri) -> Vec<(&'static str, IppRequestResponse)> {
    vec![
        ("raw", IppRequestResponse::new(IppVersion::v1_1(), Operation::GetPrinterAttributes, Some(u.clone()))),
        ("print_job", IppOperationBuilder::print_job(u.clone(), IppPayload::empty()).build().into_ipp_request()),
        ("get_printer_attributes", IppOperationBuilder::get_printer_attributes(u.clone()).build().into_ipp_request()),
        ("create_job", IppOperationBuilder::create_job(u.clone()).build().into_ipp_request()),
        ("send_document", IppOperationBuilder::send_document(u.clone(), 1, IppPayload::empty()).build().into_ipp_request()),
        ("purge_jobs", IppOperationBuilder::purge_jobs(u.clone()).build().into_ipp_request()),
        ("cancel_job", IppOperationBuilder::cancel_job(u.clone(), 1).build().into_ipp_request()),
        ("get_job_attributes", IppOperationBuilder::get_job_attributes(u.clone(), 1).build().into_ipp_request()),
        ("get_jobs", IppOperationBuilder::get_jobs(u.clone()).build().into_ipp_request()),
        ("cups_delete_printer", IppOperationBuilder::cups().delete_printer(u.clone()).into_ipp_request()),
    ]
}

use ipp::operation::IppOperation;

fn c13_one(idx: u64, st: &mut Stats) {
    let c = uri::case(idx);
    st.evaluations += 1;
    let u: Uri = match c.text.parse() {
        Ok(u) => u,
        Err(_) => {
            st.count("rejected_by_http_uri", 1);
            return;
        }
    };
    let case = json!({"index": idx, "uri": c.text});
    let r = std::panic::catch_unwind(|| {
        let canon = ipp::util::canonicalize_uri(&u).to_string();
        c13_oracle(&c, &canon).map_err(|(k, d)| (format!("helper:{}", k), d))?;
        // idempotence
        let again: Uri = canon.parse().map_err(|_| ("helper:reparse".to_string(), format!("{} does not parse", canon)))?;
        let twice = ipp::util::canonicalize_uri(&again).to_string();
        if twice != canon {
            return Err(("helper:not-idempotent".to_string(), format!("{} -> {} -> {}", c.text, canon, twice)));
        }
        // through the raw constructor for every URI, through every builder on the sub-product
        let sub = idx < uri::total() && {
            let t = vmc::explore::unrank(idx, &uri::radices());
            (t[1] <= 2 || t[1] >= 6) && t[3] <= 1 && t[4] <= 2 && t[5] <= 2
        };
        let cons = constructors(&u);
        for (name, req) in cons.iter().take(if sub { cons.len() } else { 1 }) {
            let pu = printer_uri_of(req).ok_or_else(|| (format!("{}:missing", name), format!("{}: no printer-uri (uri syntax) in the request for {}", name, c.text)))?;
            c13_oracle(&c, &pu).map_err(|(k, d)| (format!("{}:{}", name, k), d))?;
            // and as decoded from the encoded bytes
            let bytes = req.to_bytes();
            let dec = vmc::r1::decode(&bytes).map_err(|e| (format!("{}:malformed", name), e.0))?;
            let wire = dec.groups.first().and_then(|g| g.attrs.iter().find(|a| a.name == b"printer-uri")).map(|a| a.values.clone());
            if wire != Some(vec![vmc::r1::Val::Str(vmc::r1::T_URI, pu.as_bytes().to_vec())]) {
                return Err((format!("{}:wire", name), format!("encoded printer-uri differs from in-memory value {}", pu)));
            }
        }
        Ok(canon)
    });
    match r {
        Ok(Ok(canon)) => {
            st.states.insert(fnv(canon.as_bytes()));
            st.nontrivial.insert(idx);
            st.traces += 1;
            st.outcome(if c.userinfo.is_some() || c.query.is_some() { "stripped" } else { "plain" });
            st.sample(3, || json!({"target": c.text, "printer-uri": canon}));
        }
        Ok(Err((k, d))) => {
            st.outcome("wrong");
            st.violate(k, d, case);
        }
        Err(p) => {
            st.outcome("panic");
            st.violate("panic", format!("{} on {}", panic_text(p), c.text), case);
        }
    }
}

pub fn run_c13(ctx: &Ctx) -> ! {
    silence_panics();
    let mut rep = Report::new(
        ctx,
        "exploration",
        "the complete D-uri product scheme{http,https,ipp,ipps} x user-info(6) x host(8: names, IPv4, bracketed IPv6 incl. zone) x port(7) x path(9, incl. paths beginning with an empty segment) x query(5) = 80 640 target URIs (thorough: + a second product of 107 520 further shapes: multiple '@' and ':' in user-info, IDN / IPv4-mapped / trailing-dot hosts, '@', ':', '+', ',' and a nested URI in the path, '@', '?', '/' in the query), each through util::canonicalize_uri (+ idempotence) and IppRequestResponse::new, and a 4x3x8x2x3x3 sub-product through all 9 operation builders; the printer-uri value (in memory and as decoded from the encoded bytes by R1) is split by the string-level RFC 3986 splitter R3 and compared component-wise. distinct = URI index; non-trivial = accepted by http::Uri",
    );
    rep.assume("a string http::Uri refuses to parse cannot be passed to the library and is outside the domain (counted in counters.rejected_by_http_uri)");
    if let Some(p) = &ctx.replay {
        let (_, case) = vmc::report::load_replay(p);
        let mut st = Stats::new();
        c13_one(case["index"].as_u64().unwrap_or(0), &mut st);
        for v in &st.violations {
            println!("replay: class={} detail={}", v.class, v.detail);
        }
        rep.absorb(st);
        rep.finish();
    }
    // the oracle is history-independent, so any dependence of the mapping on what was mapped before is a
    // violation; to find such dependence deterministically the product runs in ascending order, in descending
    // order (one thread each) and then in parallel
    let mut seq = Stats::new();
    for i in 0..uri::total() {
        c13_one(i, &mut seq);
    }
    rep.section("ascending", seq);
    let mut seq = Stats::new();
    for i in (0..uri::total()).rev() {
        c13_one(i, &mut seq);
    }
    rep.section("descending", seq);
    let mut par = Stats::new();
    for p in par_range(ctx.threads, uri::total(), 512, Stats::new, |st, i| c13_one(i, st)) {
        par.merge(p);
    }
    rep.section("parallel", par);
    if ctx.tier == vmc::report::Tier::Thorough {
        // a second product over further shapes: 4 x 8 x 8 x 6 x 10 x 7 = 107 520 more target URIs
        let mut ext = Stats::new();
        for p in par_range(ctx.threads, uri::total_ext(), 512, Stats::new, |st, i| c13_one(uri::total() + i, st)) {
            ext.merge(p);
        }
        rep.section("extended-product", ext);
    }
    rep.finish()
}

// ------------------------------------------------------------------------------------ C14

fn c14_one(idx: u64, st: &mut Stats) {
    let c = uri::case(idx);
    st.evaluations += 1;
    let u: Uri = match c.text.parse() {
        Ok(u) => u,
        Err(_) => {
            st.count("rejected_by_http_uri", 1);
            return;
        }
    };
    let case = json!({"index": idx, "uri": c.text});
    let got = match std::panic::catch_unwind(|| ipp::client::verif_transport_url(&u)) {
        Ok(g) => g,
        Err(p) => {
            st.violate("panic", format!("{} on {}", panic_text(p), c.text), case);
            return;
        }
    };
    st.traces += 1;
    st.states.insert(fnv(got.as_bytes()));
    st.nontrivial.insert(idx);
    let want_scheme = match c.scheme {
        "ipp" => "http",
        "ipps" => "https",
        s => s,
    };
    let mapped = c.scheme == "ipp" || c.scheme == "ipps";
    let want_port: Option<u32> = match (c.port, mapped) {
        (Some(p), _) => Some(p as u32),
        (None, true) => Some(631),
        (None, false) => None,
    };
    let verdict: Result<(), (String, String)> = (|| {
        let fail = |cls: &str, why: String| Err((cls.to_string(), format!("target {} -> {}: {}", c.text, got, why)));
        let p = match uri::split(&got) {
            Some(p) => p,
            None => return fail("unsplittable", "not a URL".into()),
        };
        if p.scheme != want_scheme {
            return fail("scheme", format!("scheme {} instead of {}", p.scheme, want_scheme));
        }
        if p.userinfo.as_deref() != c.userinfo {
            return fail("userinfo", format!("user-info {:?} instead of {:?}", p.userinfo, c.userinfo));
        }
        if p.host != c.host {
            return fail("host", format!("host {:?} instead of {:?}", p.host, c.host));
        }
        if !path_eq(&p.path, c.path) {
            return fail("path", format!("path {:?} instead of {:?}", p.path, c.path));
        }
        if p.query.as_deref() != c.query {
            return fail("query", format!("query {:?} instead of {:?}", p.query, c.query));
        }
        let got_port = match &p.port {
            None => None,
            Some(s) => match s.parse::<u32>() {
                Ok(v) => Some(v),
                Err(_) => return fail("port-syntax", format!("port {:?}", s)),
            },
        };
        if got_port != want_port {
            // narrow known-finding class: port-less ipps mapped to 443 and nothing else wrong
            if c.scheme == "ipps" && c.port.is_none() && got_port == Some(443) {
                return Err((
                    "ipps-default-port-443".to_string(),
                    format!("target {} -> {}: default port 443 instead of 631", c.text, got),
                ));
            }
            return fail("port", format!("port {:?} instead of {:?}", got_port, want_port));
        }
        Ok(())
    })();
    match verdict {
        Ok(()) => {
            st.outcome(if mapped { "mapped" } else { "unchanged" });
            st.sample(3, || json!({"target": c.text, "url": got}));
        }
        Err((k, d)) => {
            st.outcome("wrong");
            st.violate(k, d, case);
        }
    }
}

pub fn run_c14(ctx: &Ctx) -> ! {
    silence_panics();
    let mut rep = Report::new(
        ctx,
        "exploration",
        "the complete D-uri product (80 640 target URIs, thorough + 107 520 further shapes, see C13) through the private URL mapper (cfg-guarded hook verif_transport_url); result split by the string-level splitter R3 and compared component-wise: ipp->http, ipps->https, http/https kept; port = given, else 631 for both ipp and ipps; host, user-info, path (\"\" = \"/\") and query unchanged; and what the two clients do with that mapping, observed by a loopback peer (child process of the network engine): request target, Host header and connection count for scheme {ipp, http} x host {127.0.0.1, localhost} x user-info(4) x path(9) x query(5) ('@', ':' and '/' inside path and query) x client configuration {plain, basic_auth, custom header, Authorization header} = 5 760 exchanges. distinct = URI index; non-trivial = accepted by http::Uri",
    );
    rep.assume("hook verif_transport_url is a pure pass-through to ipp_uri_to_string (add-only, cfg(ipp_verif)); that the clients really contact the URL this function returns is observed on the wire (section transport-url-on-the-wire)");
    if let Some(p) = &ctx.replay {
        let (_, case) = vmc::report::load_replay(p);
        let mut st = Stats::new();
        if case["wire"].as_bool() == Some(true) {
            st = wire_child(ctx, Some(p));
        } else {
            c14_one(case["index"].as_u64().unwrap_or(0), &mut st);
        }
        for v in &st.violations {
            println!("replay: class={} detail={}", v.class, v.detail);
        }
        rep.absorb(st);
        rep.finish();
    }
    // the oracle is history-independent, so any dependence of the mapping on what was mapped before is a
    // violation; to find such dependence deterministically the product runs in ascending order, in descending
    // order (one thread each) and then in parallel
    let mut seq = Stats::new();
    for i in 0..uri::total() {
        c14_one(i, &mut seq);
    }
    rep.section("ascending", seq);
    let mut seq = Stats::new();
    for i in (0..uri::total()).rev() {
        c14_one(i, &mut seq);
    }
    rep.section("descending", seq);
    let mut par = Stats::new();
    for p in par_range(ctx.threads, uri::total(), 512, Stats::new, |st, i| c14_one(i, st)) {
        par.merge(p);
    }
    rep.section("parallel", par);
    if ctx.tier == vmc::report::Tier::Thorough {
        let mut ext = Stats::new();
        for p in par_range(ctx.threads, uri::total_ext(), 512, Stats::new, |st, i| c14_one(uri::total() + i, st)) {
            ext.merge(p);
        }
        rep.section("extended-product", ext);
    }
    // what the clients do with that mapping: request target and Host header seen by a loopback peer for
    // {blocking, async} x scheme {ipp, http} x host {127.0.0.1, localhost} x user-info(4) x path(7, some with '@')
    // x query(5, some with '@') x client configuration {plain, basic_auth, custom header, Authorization header}
    let wire = wire_child(ctx, None);
    rep.section("transport-url-on-the-wire", wire);
    rep.finish()
}

/// the network half lives in the hnet binary (built by ./check before this runs)
fn wire_child(ctx: &Ctx, replay: Option<&std::path::Path>) -> Stats {
    let exe = ctx.verif_dir.join("target/release/hnet-native");
    let mut cmd = std::process::Command::new(&exe);
    cmd.arg("C14").arg("--tier").arg(if ctx.tier == vmc::report::Tier::Thorough { "thorough" } else { "quick" });
    if let Some(p) = replay {
        cmd.arg("--replay").arg(p);
    }
    let out = match cmd.output() {
        Ok(o) => o,
        Err(e) => {
            eprintln!("MACHINERY-ERROR cannot run {:?}: {}", exe, e);
            std::process::exit(2)
        }
    };
    let text = String::from_utf8_lossy(&out.stdout).to_string();
    match text.lines().find(|l| l.starts_with("WIRE-REPORT ")) {
        Some(line) => Stats::from_json(&serde_json::from_str(&line["WIRE-REPORT ".len()..]).unwrap_or(Json::Null)),
        None => {
            eprintln!("MACHINERY-ERROR {:?} C14 produced no report: {}", exe, String::from_utf8_lossy(&out.stderr));
            std::process::exit(2)
        }
    }
}

// ------------------------------------------------------------------------------------ C16

/// generic table check: `decode(code)` -> Option<(discriminant, Debug name)>
fn check_table(
    st: &mut Stats,
    what: &str,
    table: reg::Table,
    ext: reg::Table,
    complete: bool,
    domain: impl Iterator<Item = i64>,
    decode: impl Fn(i64) -> Option<(i64, String)>,
) {
    for code in domain {
        st.evaluations += 1;
        st.transitions += 1;
        let regn = if code >= 0 { reg::lookup_code(table, code as u32) } else { None };
        let got = decode(code);
        let case = json!({"table": what, "code": code});
        match (regn, &got) {
            (Some(names), Some((disc, ident))) => {
                st.nontrivial.insert(fnv(format!("{}{}", what, code).as_bytes()));
                st.outcome("registered");
                if *disc != code {
                    st.violate(format!("{}:wrong-symbol", what), format!("{} code {:#06x} decodes to {} whose value is {:#06x}", what, code, ident, disc), case);
                } else if !names.iter().any(|n| reg::norm(n) == reg::norm(ident)) {
                    st.violate(format!("{}:wrong-name", what), format!("{} code {:#06x} is {:?} in the registry but the library calls it {}", what, code, names, ident), case);
                }
            }
            (Some(names), None) => {
                // completeness is demanded by the property only for status codes ("every code defined
                // by RFC 8011 gives its own symbol"); for the other tables the statement is about the
                // codes the library does emit / recognise, so a registry entry the library lacks is
                // counted, not reported
                if complete {
                    st.outcome("registered");
                    st.violate(format!("{}:missing", what), format!("{} code {:#06x} ({}) is not recognised", what, code, names[0]), case);
                } else {
                    st.outcome("registry-entry-not-in-library");
                }
            }
            (None, Some((disc, ident))) => {
                st.outcome("extension");
                // a symbol the registry knows by name must carry the registry's code
                if let Some(reg_code) = reg::lookup_name(table, ident).or_else(|| reg::lookup_name(ext, ident)).filter(|rc| *rc as i64 != code) {
                    st.violate(
                        format!("{}:wrong-code-for-name", what),
                        format!("{} symbol {} has code {:#06x} in the library but {:#06x} in the registry", what, ident, code, reg_code),
                        case.clone(),
                    );
                }
                if *disc != code {
                    st.violate(format!("{}:alias", what), format!("unregistered {} code {:#06x} decodes to {} ({:#06x})", what, code, ident, disc), case);
                }
            }
            (None, None) => st.outcome("unknown"),
        }
    }
}

pub fn run_c16(ctx: &Ctx) -> ! {
    silence_panics();
    let mut rep = Report::new(
        ctx,
        "exploration",
        "complete finite domains: all 65 536 16-bit codes through StatusCode::from_u16 / IppHeader::status_code / is_success - the header-level decoding for protocol versions {1.1, 1.0, 2.0, 2.1, 2.2, 0.0, 3.0, ff.ff} x request-id {1, 0, 2^32-1}, on headers built in memory and on parsed responses (bare and with three layouts of attribute groups: the status word must come through untouched) - and through Operation::from_u16; all 256 bytes through DelimiterTag::from_u8 and ValueTag::from_u8; i32 -1..=300 through PrinterState, JobState, Orientation, PrintQuality, Finishings; IppValue::to_tag of each kind; against registry tables typed in from RFC 8010/8011, PWG 5100.1 and the CUPS specification (identifier names compared after normalisation); the readiness helper's status gate for all 65 536 codes with and without a printer group; and the success classification as the repository's command-line tool reports it: ipputil print against a loopback printer answering Print-Job with 825 status codes (0-2, every code of 0x0100-0x03ff, all named errors, far codes), exit status 0 <=> successful. distinct = (table, code); non-trivial = code present in the registry",
    );
    rep.assume("registry tables R2 in vmc::registry were typed in correctly from the RFCs");
    let mut st = Stats::new();
    check_table(&mut st, "status", reg::STATUS, reg::STATUS_EXT, true, 0..=0xffff, |c| StatusCode::from_u16(c as u16).map(|s| (s as u16 as i64, format!("{:?}", s))));
    check_table(&mut st, "operation", reg::OPERATIONS, reg::OPERATIONS_EXT, false, 0..=0xffff, |c| Operation::from_u16(c as u16).map(|s| (s as u16 as i64, format!("{:?}", s))));
    check_table(&mut st, "delimiter-tag", reg::DELIMITER_TAGS, &[], false, 0..=0xff, |c| DelimiterTag::from_u8(c as u8).map(|s| (s as u8 as i64, format!("{:?}", s))));
    check_table(&mut st, "value-tag", reg::VALUE_TAGS, &[], false, 0..=0xff, |c| ValueTag::from_u8(c as u8).map(|s| (s as u8 as i64, format!("{:?}", s))));
    check_table(&mut st, "printer-state", reg::PRINTER_STATE, &[], false, -1..=300, |c| PrinterState::from_i32(c as i32).map(|s| (s as i32 as i64, format!("{:?}", s))));
    check_table(&mut st, "job-state", reg::JOB_STATE, &[], false, -1..=300, |c| JobState::from_i32(c as i32).map(|s| (s as i32 as i64, format!("{:?}", s))));
    check_table(&mut st, "orientation", reg::ORIENTATION, &[], false, -1..=300, |c| Orientation::from_i32(c as i32).map(|s| (s as i32 as i64, format!("{:?}", s))));
    check_table(&mut st, "print-quality", reg::PRINT_QUALITY, &[], false, -1..=300, |c| PrintQuality::from_i32(c as i32).map(|s| (s as i32 as i64, format!("{:?}", s))));
    check_table(&mut st, "finishings", reg::FINISHINGS, &[], false, -1..=300, |c| Finishings::from_i32(c as i32).map(|s| (s as i32 as i64, format!("{:?}", s))));
    // tables may be extended but the library's own symbols must exist in the registry where the
    // registry is the authority (the registry tables above are complete for the ranges the library
    // populates): a library symbol with no registry entry is reported only for status codes, where
    // RFC 8011 is closed, except the library's explicit "unknown" sentinel 0xffff
    for c in 0..=0xffffu32 {
        if let Some(s) = StatusCode::from_u16(c as u16) {
            if reg::lookup_code(reg::STATUS, c).is_none() && c != 0xffff {
                st.count("status_extensions", 1);
            }
            let _ = s;
        }
    }
    // status decoding through the header, and the success classification
    // ... for every protocol version and request-id a response can carry (decoding is a function of the code alone),
    // on a header built in memory and on one that went through the parser
    let versions: [u16; 8] = [0x0101, 0x0100, 0x0200, 0x0201, 0x0202, 0x0000, 0x0300, 0xffff];
    let request_ids: [u32; 3] = [1, 0, 0xffff_ffff];
    for c in 0..=0xffffu32 {
        for (vi, ver) in versions.iter().enumerate() {
            for rid in request_ids {
                if vi > 0 && rid != 1 && c >= 0x0600 && c < 0xff00 {
                    continue; // the request-id dimension is swept for the populated code ranges
                }
                for parsed in [false, true] {
                    st.evaluations += 1;
                    let h = if parsed {
                        let wire = [(*ver >> 8) as u8, *ver as u8, (c >> 8) as u8, c as u8, (rid >> 24) as u8, (rid >> 16) as u8, (rid >> 8) as u8, rid as u8, 0x03];
                        match ipp::parser::IppParser::new(ipp::reader::IppReader::new(std::io::Cursor::new(wire.to_vec()))).parse() {
                            Ok(r) => r.header().clone(),
                            Err(_) => {
                                // whether a parser accepts this version is not this property's business
                                st.count("responses_not_accepted_by_the_parser", 1);
                                continue;
                            }
                        }
                    } else {
                        IppHeader::new(IppVersion(*ver), c as u16, rid)
                    };
                    let s = h.status_code();
                    let case = json!({"table": "status_code()", "code": c, "version": ver, "request_id": rid, "parsed": parsed});
                    let how = format!("(version {:#06x}, request-id {}, {})", ver, rid, if parsed { "parsed response" } else { "header built in memory" });
                    let registered = reg::lookup_code(reg::STATUS, c).is_some();
                    if registered {
                        if s as u16 as u32 != c {
                            st.violate("status_code:wrong-symbol", format!("header status {:#06x} decodes to {:?} ({:#06x}) {}", c, s, s as u16, how), case.clone());
                        }
                    } else if !(s == StatusCode::UnknownStatusCode || s as u16 as u32 == c) {
                        st.violate("status_code:alias", format!("unregistered status {:#06x} decodes to {:?} ({:#06x}) {}", c, s, s as u16, how), case.clone());
                    }
                    let ok = s.is_success();
                    if c <= 2 && !ok {
                        st.violate("is_success:false-negative", format!("status {:#06x} ({:?}) is not reported as success {}", c, s, how), case.clone());
                    }
                    if c >= 0x100 && ok {
                        st.violate("is_success:false-positive", format!("status {:#06x} ({:?}) is reported as success {}", c, s, how), case.clone());
                    }
                }
            }
        }
    }
    for c in 0..=0xffffu32 {
        st.evaluations += 1;
        st.transitions += 1;
        let h = IppHeader::new(IppVersion::v1_1(), c as u16, 1);
        let s = h.status_code();
        let case = json!({"table": "status_code()", "code": c});
        let registered = reg::lookup_code(reg::STATUS, c).is_some();
        if registered {
            if s as u16 as u32 != c {
                st.violate("status_code:wrong-symbol", format!("header status {:#06x} decodes to {:?} ({:#06x})", c, s, s as u16), case.clone());
            }
        } else if !(s == StatusCode::UnknownStatusCode || s as u16 as u32 == c) {
            st.violate("status_code:alias", format!("unregistered status {:#06x} decodes to {:?} ({:#06x})", c, s, s as u16), case.clone());
        }
        let ok = s.is_success();
        if c <= 2 && !ok {
            st.violate("is_success:false-negative", format!("status {:#06x} ({:?}) is not reported as success", c, s), case.clone());
        }
        if c >= 0x100 && ok {
            st.violate("is_success:false-positive", format!("status {:#06x} ({:?}) is reported as success", c, s), case.clone());
        }
        st.outcome(if ok { "success" } else { "not-success" });
    }
    // encoder side: the tag of each value kind
    let kinds: Vec<(IppValue, &str)> = vec![
        (IppValue::Integer(0), "integer"),
        (IppValue::Enum(0), "enum"),
        (IppValue::Boolean(true), "boolean"),
        (IppValue::OctetString(String::new()), "octetString"),
        (IppValue::TextWithoutLanguage(String::new()), "textWithoutLanguage"),
        (IppValue::NameWithoutLanguage(String::new()), "nameWithoutLanguage"),
        (IppValue::TextWithLanguage { language: String::new(), text: String::new() }, "textWithLanguage"),
        (IppValue::NameWithLanguage { language: String::new(), name: String::new() }, "nameWithLanguage"),
        (IppValue::Charset(String::new()), "charset"),
        (IppValue::NaturalLanguage(String::new()), "naturalLanguage"),
        (IppValue::Uri(String::new()), "uri"),
        (IppValue::UriScheme(String::new()), "uriScheme"),
        (IppValue::RangeOfInteger { min: 0, max: 0 }, "rangeOfInteger"),
        (IppValue::Keyword(String::new()), "keyword"),
        (IppValue::Collection(Default::default()), "begCollection"),
        (IppValue::MimeMediaType(String::new()), "mimeMediaType"),
        (
            IppValue::DateTime { year: 0, month: 0, day: 0, hour: 0, minutes: 0, seconds: 0, deci_seconds: 0, utc_dir: '+', utc_hours: 0, utc_mins: 0 },
            "dateTime",
        ),
        (IppValue::MemberAttrName(String::new()), "memberAttrName"),
        (IppValue::Resolution { cross_feed: 0, feed: 0, units: 3 }, "resolution"),
        (IppValue::NoValue, "no-value"),
    ];
    for (v, name) in kinds {
        st.evaluations += 1;
        let want = reg::lookup_name(reg::VALUE_TAGS, name).unwrap();
        if v.to_tag() as u32 != want {
            st.violate("to_tag", format!("{} values are tagged {:#04x}, registry says {:#04x}", name, v.to_tag(), want), json!({"table": "to_tag", "kind": name}));
        }
        st.nontrivial.insert(fnv(name.as_bytes()));
    }
    for t in 0..=0xffu8 {
        st.evaluations += 1;
        let v = IppValue::Other { tag: t, data: Default::default() };
        if v.to_tag() != t {
            st.violate("to_tag", format!("Other{{tag:{:#04x}}} is tagged {:#04x}", t, v.to_tag()), json!({"table": "to_tag", "kind": "other", "code": t}));
        }
    }
    // ... and on responses that carry attribute groups (the parser must hand the status word through untouched)
    for c in 0..=0xffffu32 {
        for body in 0..3usize {
            st.evaluations += 1;
            let mut wire = vec![0x01, 0x01, (c >> 8) as u8, c as u8, 0, 0, 0, 9];
            match body {
                0 => wire.extend_from_slice(&[0x05, 0x44, 0, 1, b'u', 0, 1, b'k']),
                1 => wire.extend_from_slice(&[0x01, 0x47, 0, 18, b'a', b't', b't', b'r', b'i', b'b', b'u', b't', b'e', b's', b'-', b'c', b'h', b'a', b'r', b's', b'e', b't', 0, 5, b'u', b't', b'f', b'-', b'8', 0x05, 0x10, 0, 1, b'x', 0, 0, 0x04, 0x23, 0, 1, b's', 0, 4, 0, 0, 0, 3]),
                _ => wire.extend_from_slice(&[0x02, 0x21, 0, 1, b'j', 0, 4, 0, 0, 0, 1, 0x02, 0x05]),
            }
            wire.push(0x03);
            let case = json!({"table": "status_code()", "code": c, "parsed_with_groups": body});
            match ipp::parser::IppParser::new(ipp::reader::IppReader::new(std::io::Cursor::new(wire))).parse() {
                Ok(r) => {
                    let h = r.header();
                    if h.operation_or_status as u32 != c {
                        st.violate("status_code:status-word-altered-by-the-parser", format!("a response sent with status {:#06x} (group layout {}) is handed out with status {:#06x}", c, body, h.operation_or_status), case);
                    } else if reg::lookup_code(reg::STATUS, c).is_some() && h.status_code() as u16 as u32 != c {
                        st.violate("status_code:wrong-symbol", format!("parsed response status {:#06x} decodes to {:?}", c, h.status_code()), case);
                    }
                }
                Err(_) => st.count("responses_not_accepted_by_the_parser", 1),
            }
        }
    }
    // ... and as the readiness helper reports it: for every status code, a response without a printer group and one
    // with a healthy printer group (idle, reasons none) - outside the successful class the answer must be the status
    // error, never Ok(_)
    for c in 0..=0xffffu32 {
        for with_group in [false, true] {
            st.evaluations += 1;
            let mut r = IppRequestResponse::new_response(IppVersion::v1_1(), StatusCode::SuccessfulOk, 1);
            r.header_mut().operation_or_status = c as u16;
            if with_group {
                r.attributes_mut().add(DelimiterTag::PrinterAttributes, IppAttribute::new("printer-state", IppValue::Enum(3)));
                r.attributes_mut().add(DelimiterTag::PrinterAttributes, IppAttribute::new("printer-state-reasons", IppValue::Keyword("none".into())));
            }
            let got = ipp::util::is_printer_ready(&r);
            let case = json!({"table": "is_printer_ready", "code": c, "printer_group": with_group});
            match got {
                Ok(_) if c >= 0x100 => st.violate("is_printer_ready:error-status-reported-as-ok", format!("status {:#06x} with{} a printer group: the readiness helper returned {:?} instead of the status error", c, if with_group { "" } else { "out" }, got), case),
                Err(_) if c <= 2 => st.violate("is_printer_ready:successful-status-reported-as-error", format!("status {:#06x}: the readiness helper returned {:?}", c, got), case),
                _ => {}
            }
        }
    }
    st.traces = st.evaluations;
    // the same classification as the repository's command-line tool reports it: `ipputil print` against a loopback
    // printer that answers Print-Job with every status code of a sweep (0-2, EVERY code of 0x0100-0x03ff, all named
    // errors, far codes); exit status 0 <=> successful (network engine, child process)
    let cli = cli_child(ctx);
    st.states.extend(st.nontrivial.iter().copied());
    st.sample(3, || json!({"table": "status", "code": "0x0401", "registry": "client-error-forbidden", "library": format!("{:?}", StatusCode::from_u16(0x0401))}));
    st.sample(3, || json!({"table": "finishings", "code": 85, "library": format!("{:?}", Finishings::from_i32(85))}));
    rep.section("library-tables", st);
    rep.section("command-line-tool-success-classification", cli);
    rep.finish()
}

fn cli_child(ctx: &Ctx) -> Stats {
    let exe = ctx.verif_dir.join("target/release/hnet-native");
    let out = match std::process::Command::new(&exe).arg("C16").arg("--tier").arg(if ctx.tier == vmc::report::Tier::Thorough { "thorough" } else { "quick" }).output() {
        Ok(o) => o,
        Err(e) => {
            eprintln!("MACHINERY-ERROR cannot run {:?}: {}", exe, e);
            std::process::exit(2)
        }
    };
    let text = String::from_utf8_lossy(&out.stdout).to_string();
    match text.lines().find(|l| l.starts_with("CLI-REPORT ")) {
        Some(line) => Stats::from_json(&serde_json::from_str(&line["CLI-REPORT ".len()..]).unwrap_or(Json::Null)),
        None => {
            eprintln!("MACHINERY-ERROR {:?} C16 produced no report: {} {}", exe, text, String::from_utf8_lossy(&out.stderr));
            std::process::exit(2)
        }
    }
}

#[allow(dead_code)]
fn unused(_: Json) {}
