//! C08 — a message read as a stream = encoded header+attributes ‖ payload ‖ end-of-stream, for every
//! payload source, payload length and consumer buffer-size pattern, through both interfaces.

use crate::adapter::*;
use futures_util::io::{AsyncRead, AsyncReadExt};
use ipp::prelude::*;
use std::io::{ErrorKind, Read};
use std::pin::Pin;
use std::sync::atomic::{AtomicBool, AtomicUsize, Ordering::SeqCst};
use std::sync::Arc;
use std::task::{Context, Poll};
use vmc::env::*;
use vmc::explore::par_range;
use vmc::gen::realistic;
use vmc::r1::{self, Msg};
use vmc::report::{Ctx, Report, Stats};
use vmc::{fnv, json, Json};

/// records how many bytes the consumer had received when the payload source was first touched
struct Probe<R> {
    inner: R,
    received: Arc<AtomicUsize>,
    first_at: Arc<AtomicUsize>,
}

impl<R> Probe<R> {
    fn touch(&self) {
        let _ = self.first_at.compare_exchange(usize::MAX, self.received.load(SeqCst), SeqCst, SeqCst);
    }
}

impl<R: Read> Read for Probe<R> {
    fn read(&mut self, buf: &mut [u8]) -> std::io::Result<usize> {
        self.touch();
        self.inner.read(buf)
    }
}

impl<R: AsyncRead + Unpin> AsyncRead for Probe<R> {
    fn poll_read(mut self: Pin<&mut Self>, cx: &mut Context<'_>, buf: &mut [u8]) -> Poll<std::io::Result<usize>> {
        self.touch();
        Pin::new(&mut self.inner).poll_read(cx, buf)
    }
}

const N_SOURCES: u64 = 8;
const SOURCE_NAMES: [&str; 8] = [
    "none",
    "blocking-cursor",
    "blocking-1-byte-dribble",
    "blocking-interrupted",
    "async-ready",
    "async-fragmented",
    "async-pending-immediate",
    "async-pending-deferred",
];

fn payload_bytes(len: usize, seed: u64) -> Vec<u8> {
    let mut v = Vec::with_capacity(len);
    let mut x = 0x2545F4914F6CDD1Du64 ^ seed ^ (len as u64);
    for i in 0..len {
        x ^= x << 13;
        x ^= x >> 7;
        x ^= x << 17;
        // make the first bytes look like IPP tags
        v.push(if i < 3 { [3u8, 1, 3][i] } else { (x >> 32) as u8 });
    }
    v
}

struct Built {
    payload: IppPayload,
    mon: Arc<Monitor>,
    first_at: Arc<AtomicUsize>,
    received: Arc<AtomicUsize>,
}

fn make_payload(source: u64, bytes: &Arc<Vec<u8>>) -> Built {
    let mon = Monitor::new();
    let received = Arc::new(AtomicUsize::new(0));
    let first_at = Arc::new(AtomicUsize::new(usize::MAX));
    let n = bytes.len();
    let probe_sync = |script: Vec<Step>| Probe {
        inner: ScriptSource::new(bytes.clone(), script, mon.clone()),
        received: received.clone(),
        first_at: first_at.clone(),
    };
    let payload = match source {
        0 => IppPayload::empty(),
        1 => IppPayload::new(probe_sync(vec![])),
        2 => {
            let script = if n <= 10_000 { (0..n).map(|_| Step::Chunk(1)).collect() } else { (0..(n / 4093 + 1)).map(|_| Step::Chunk(4093)).collect() };
            IppPayload::new(probe_sync(script))
        }
        3 => IppPayload::new(probe_sync(vec![Step::Interrupted, Step::Chunk(5), Step::Interrupted, Step::Interrupted, Step::Chunk(8190), Step::Interrupted])),
        4 => IppPayload::new_async(Probe {
            inner: futures_util::io::Cursor::new(bytes.to_vec()),
            received: received.clone(),
            first_at: first_at.clone(),
        }),
        5 => IppPayload::new_async(probe_sync((0..(n / 7 + 1).min(4000)).map(|_| Step::Chunk(7)).collect())),
        6 => {
            let mut script = vec![];
            for _ in 0..4 {
                script.push(Step::Pending { deferred: false });
                script.push(Step::Chunk(3));
            }
            script.push(Step::Pending { deferred: false });
            IppPayload::new_async(probe_sync(script))
        }
        _ => {
            let mut script = vec![];
            for i in 0..4 {
                script.push(Step::Pending { deferred: true });
                if i == 1 {
                    script.push(Step::Pending { deferred: false });
                }
                script.push(Step::Chunk(2));
            }
            script.push(Step::Pending { deferred: true });
            IppPayload::new_async(probe_sync(script))
        }
    };
    Built {
        payload,
        mon,
        first_at,
        received,
    }
}

#[derive(Clone, Debug)]
struct Case {
    msg: usize,
    source: u64,
    len: usize,
    pattern: Vec<usize>,
    tail: usize,
    async_consumer: bool,
    /// async consumer only: after a not-ready answer, come back with a different buffer
    fresh_buffer_after_pending: bool,
}

impl Case {
    fn to_json(&self) -> Json {
        json!({"msg": self.msg, "source": SOURCE_NAMES[self.source as usize], "source_idx": self.source, "payload_len": self.len, "buffer_sizes": self.pattern, "then": self.tail,
               "consumer": if self.async_consumer { "into_async_read" } else { "into_read" }, "fresh_buffer_after_pending": self.fresh_buffer_after_pending})
    }
    fn from_json(j: &Json) -> Option<Case> {
        Some(Case {
            msg: j["msg"].as_u64()? as usize,
            source: j["source_idx"].as_u64()?,
            len: j["payload_len"].as_u64()? as usize,
            pattern: j["buffer_sizes"].as_array()?.iter().map(|v| v.as_u64().unwrap_or(1) as usize).collect(),
            tail: j["then"].as_u64()? as usize,
            async_consumer: j["consumer"].as_str()? == "into_async_read",
            fresh_buffer_after_pending: j["fresh_buffer_after_pending"].as_bool().unwrap_or(false),
        })
    }
}

fn messages() -> Vec<Option<Msg>> {
    let rs = realistic();
    let mut out: Vec<Option<Msg>> = vec![];
    let mut m0 = Msg::new(0x0101, 0x0002, 1);
    m0.groups.push(r1::Group {
        tag: r1::TAG_OPERATION,
        attrs: vec![],
    });
    out.push(Some(m0));
    for (n, mut m) in rs {
        if n == "print-job-request" || n == "gpa-response" {
            m.data.clear();
            out.push(Some(m));
        }
    }
    out.push(None); // bare IppPayload, no message around it
    out
}

fn run_case(c: &Case, msgs: &[Option<Msg>], seed: u64, st: &mut Stats) {
    st.evaluations += 1;
    st.traces += 1;
    let pay = Arc::new(if c.source == 0 { vec![] } else { payload_bytes(c.len, seed) });
    let built = make_payload(c.source, &pay);
    let (head, stream_sync, stream_async): (Vec<u8>, Option<Box<dyn Read>>, Option<Pin<Box<dyn AsyncRead>>>) = match &msgs[c.msg] {
        Some(m) => {
            let mut req = build_ipp(m);
            let head = req.to_bytes().to_vec();
            *req.payload_mut() = built.payload;
            if c.async_consumer {
                (head, None, Some(Box::pin(req.into_async_read())))
            } else {
                (head, Some(Box::new(req.into_read())), None)
            }
        }
        None => {
            if c.async_consumer {
                (vec![], None, Some(Box::pin(built.payload)))
            } else {
                (vec![], Some(Box::new(built.payload)), None)
            }
        }
    };
    let hlen = head.len();
    let mut expected = head;
    expected.extend_from_slice(&pay);
    // resolve symbolic sizes relative to H
    let size_of = |s: usize| -> usize {
        match s {
            1_000_001 => hlen.saturating_sub(1).max(1),
            1_000_002 => hlen.max(1),
            1_000_003 => hlen + 1,
            x => x,
        }
    };
    let sizes: Vec<usize> = c.pattern.iter().map(|s| size_of(*s)).collect();
    let tail = size_of(c.tail);
    let received = built.received.clone();
    let mon = built.mon.clone();
    let limit_calls = 2 * expected.len() + sizes.len() + 5000; // a source may deliver one byte per call

    let result: Result<(Vec<u8>, usize), String> = if let Some(mut rd) = stream_sync {
        // helper thread fires deferred wake-ups (block_on inside IppPayload::read must be woken from outside)
        let stop = Arc::new(AtomicBool::new(false));
        let helper = if c.source == 7 {
            let stop2 = stop.clone();
            let mon2 = mon.clone();
            Some(std::thread::spawn(move || {
                let t0 = std::time::Instant::now();
                while !stop2.load(SeqCst) && t0.elapsed().as_secs() < 20 {
                    let w = mon2.parked.lock().unwrap().take();
                    if let Some(w) = w {
                        w.wake();
                    }
                    std::thread::yield_now();
                }
            }))
        } else {
            None
        };
        let r = std::panic::catch_unwind(std::panic::AssertUnwindSafe(|| {
            let mut out = vec![];
            let mut calls = 0usize;
            let mut zeros = 0;
            let mut i = 0;
            loop {
                let sz = if i < sizes.len() { sizes[i] } else { tail };
                let mut buf = vec![0u8; sz];
                calls += 1;
                if calls > limit_calls {
                    return Err(format!("no end-of-stream after {} reads", calls));
                }
                match rd.read(&mut buf) {
                    Ok(0) if sz == 0 => {
                        // a zero-length buffer is not end-of-stream; the stream must go on afterwards
                        i += 1;
                    }
                    Ok(0) => {
                        zeros += 1;
                        if zeros == 3 {
                            break;
                        }
                    }
                    Ok(n) => {
                        if zeros > 0 {
                            return Err("data after end-of-stream".into());
                        }
                        if n > sz {
                            return Err("read returned more than the buffer holds".into());
                        }
                        out.extend_from_slice(&buf[..n]);
                        received.fetch_add(n, SeqCst);
                        i += 1;
                    }
                    Err(e) if e.kind() == ErrorKind::Interrupted => continue,
                    Err(e) => return Err(format!("read error {:?}", e.kind())),
                }
            }
            Ok((out, calls))
        }));
        stop.store(true, SeqCst);
        if let Some(h) = helper {
            let _ = h.join();
        }
        match r {
            Ok(x) => x,
            Err(p) => Err(format!("panic: {}", panic_text(p))),
        }
    } else {
        let mut rd = stream_async.unwrap();
        let sizes2 = sizes.clone();
        let fresh = c.fresh_buffer_after_pending;
        let fut = async move {
            if fresh {
                // a consumer that abandons a pending read and comes back with ANOTHER buffer (a dropped read
                // future, select!, per-call buffers): legal for AsyncRead, which keeps no claim on the buffer
                let mut out = vec![];
                let mut calls = 0usize;
                let mut zeros = 0;
                let mut i = 0;
                let mut alt = false;
                loop {
                    let base = if i < sizes2.len() { sizes2[i] } else { tail };
                    let sz = if alt { base / 2 + 1 } else { base };
                    let mut buf = vec![0xEEu8; sz];
                    calls += 1;
                    if calls > 4 * limit_calls {
                        return Err(format!("no end-of-stream after {} polls", calls));
                    }
                    let r = std::future::poll_fn(|cx| match rd.as_mut().poll_read(cx, &mut buf) {
                        Poll::Pending => Poll::Ready(None),
                        Poll::Ready(r) => Poll::Ready(Some(r)),
                    })
                    .await;
                    match r {
                        None => {
                            // not ready: give the source the chance to wake us, then retry with a different buffer
                            alt = !alt;
                            let mut yielded = false;
                            std::future::poll_fn(|cx| {
                                if yielded {
                                    Poll::Ready(())
                                } else {
                                    yielded = true;
                                    cx.waker().wake_by_ref();
                                    Poll::Pending
                                }
                            })
                            .await;
                        }
                        Some(Ok(0)) if sz == 0 => i += 1,
                        Some(Ok(0)) => {
                            zeros += 1;
                            if zeros == 3 {
                                break;
                            }
                        }
                        Some(Ok(n)) => {
                            if zeros > 0 {
                                return Err("data after end-of-stream".into());
                            }
                            if n > sz {
                                return Err(format!("poll_read reported {} bytes for a {}-byte buffer", n, sz));
                            }
                            out.extend_from_slice(&buf[..n]);
                            received.fetch_add(n, SeqCst);
                            i += 1;
                        }
                        Some(Err(e)) => return Err(format!("read error {:?} surfaced through the async interface", e.kind())),
                    }
                }
                return Ok((out, calls));
            }
            let mut out = vec![];
            let mut calls = 0usize;
            let mut zeros = 0;
            let mut i = 0;
            loop {
                let sz = if i < sizes2.len() { sizes2[i] } else { tail };
                let mut buf = vec![0u8; sz];
                calls += 1;
                if calls > limit_calls {
                    return Err(format!("no end-of-stream after {} reads", calls));
                }
                match rd.read(&mut buf).await {
                    Ok(0) if sz == 0 => {
                        i += 1;
                    }
                    Ok(0) => {
                        zeros += 1;
                        if zeros == 3 {
                            break;
                        }
                    }
                    Ok(n) => {
                        if zeros > 0 {
                            return Err("data after end-of-stream".into());
                        }
                        out.extend_from_slice(&buf[..n]);
                        received.fetch_add(n, SeqCst);
                        i += 1;
                    }
                    // futures-io: "poll_read may not return errors of kind WouldBlock or Interrupted" - an
                    // async consumer (read_to_end, hyper's body stream) does not retry them
                    Err(e) => return Err(format!("read error {:?} surfaced through the async interface", e.kind())),
                }
            }
            Ok((out, calls))
        };
        let r = std::panic::catch_unwind(std::panic::AssertUnwindSafe(|| run_manual(fut, &mon, 4 * limit_calls + 64, None)));
        match r {
            Ok(Run::Done { value, .. }) => value,
            Ok(Run::LostWakeup { polls }) => Err(format!("lost wake-up after {} polls", polls)),
            Ok(Run::Horizon { polls }) => Err(format!("not finished after {} polls", polls)),
            Err(p) => Err(format!("panic: {}", panic_text(p))),
        }
    };
    st.transitions += mon.calls.load(SeqCst) as u64;
    st.count("not_ready_answers_consumed", mon.pendings.load(SeqCst) as u64);
    st.count("interrupts_consumed", mon.interrupts.load(SeqCst) as u64);
    let key = fnv(format!("{}:{}:{}:{}", c.msg, c.source, c.len, c.async_consumer).as_bytes());
    st.states.insert(key);
    if c.len > 0 && c.source > 0 {
        st.nontrivial.insert(fnv(format!("{:?}", c).as_bytes()));
    }
    let iface = if c.async_consumer { "async" } else { "blocking" };
    match result {
        Ok((got, _calls)) => {
            if got != expected {
                let at = got.iter().zip(expected.iter()).position(|(a, b)| a != b).unwrap_or(got.len().min(expected.len()));
                let cls = if got.len() < expected.len() {
                    "stream-short"
                } else if got.len() > expected.len() {
                    "stream-long"
                } else {
                    "stream-corrupt"
                };
                st.outcome("differs");
                st.violate(
                    format!("{}:{}:{}", iface, SOURCE_NAMES[c.source as usize], cls),
                    format!("{}: stream has {} bytes, expected {} (header+attributes {} + payload {}); first difference at offset {}", c.to_json(), got.len(), expected.len(), hlen, pay.len(), at),
                    c.to_json(),
                );
            } else {
                // when the payload source was first touched is recorded but NOT judged: the statement fixes the
                // byte stream, not the moment the source is first read (a reader that serves the end of the header
                // and the start of the payload in one call is correct)
                let first = built.first_at.load(SeqCst);
                if c.source > 0 && msgs[c.msg].is_some() && first != usize::MAX && first < hlen {
                    st.count("payload_source_touched_in_the_call_that_finished_the_header", 1);
                }
                st.outcome("exact");
            }
        }
        Err(e) => {
            st.outcome("error");
            st.violate(format!("{}:{}:error", iface, SOURCE_NAMES[c.source as usize]), format!("{}: {}", c.to_json(), e), c.to_json());
        }
    }
    st.sample(3, || c.to_json());
}

#[allow(clippy::too_many_arguments)]
fn run_fail_case(mi: usize, async_source: bool, k: usize, kind: ErrorKind, async_consumer: bool, tail: usize, transient: bool, msgs: &[Option<Msg>], seed: u64, st: &mut Stats) {
    st.evaluations += 1;
    st.traces += 1;
    let pay = Arc::new(payload_bytes(k + 10, seed));
    let mon = Monitor::new();
    // sticky failure, or a TRANSIENT one (returned once; a consumer that reads on must get the whole stream)
    let src = ScriptSource::new(pay.clone(), vec![Step::Chunk(k), if transient { Step::ErrorOnce(kind) } else { Step::Error(kind) }], mon.clone());
    let payload = if async_source { IppPayload::new_async(src) } else { IppPayload::new(src) };
    let (head, rd_sync, rd_async): (Vec<u8>, Option<Box<dyn Read>>, Option<Pin<Box<dyn AsyncRead>>>) = match &msgs[mi] {
        Some(m) => {
            let mut req = build_ipp(m);
            let head = req.to_bytes().to_vec();
            *req.payload_mut() = payload;
            if async_consumer {
                (head, None, Some(Box::pin(req.into_async_read())))
            } else {
                (head, Some(Box::new(req.into_read())), None)
            }
        }
        None => {
            if async_consumer {
                (vec![], None, Some(Box::pin(payload)))
            } else {
                (vec![], Some(Box::new(payload)), None)
            }
        }
    };
    let mut expected = head.clone();
    expected.extend_from_slice(&pay);
    let limit = 2 * expected.len() + 1000;
    // Ok(bytes, ended_with_error)
    let r: Result<(Vec<u8>, Option<ErrorKind>), String> = if let Some(mut rd) = rd_sync {
        match std::panic::catch_unwind(std::panic::AssertUnwindSafe(move || {
            let mut out = vec![];
            let mut buf = vec![0u8; tail];
            let mut errors = 0;
            for _ in 0..limit {
                match rd.read(&mut buf) {
                    Ok(0) => return Ok((out, None)),
                    Ok(n) => out.extend_from_slice(&buf[..n]),
                    Err(e) if e.kind() == ErrorKind::Interrupted => continue,
                    Err(e) => {
                        errors += 1;
                        if !transient || errors > 3 {
                            return Ok((out, Some(e.kind())));
                        }
                    }
                }
            }
            Err("neither end-of-stream nor an error".to_string())
        })) {
            Ok(x) => x,
            Err(p) => Err(format!("panic: {}", panic_text(p))),
        }
    } else {
        let mut rd = rd_async.unwrap();
        let fut = async move {
            let mut out = vec![];
            let mut buf = vec![0u8; tail];
            let mut errors = 0;
            for _ in 0..limit {
                match rd.read(&mut buf).await {
                    Ok(0) => return Ok((out, None)),
                    Ok(n) => out.extend_from_slice(&buf[..n]),
                    Err(e) => {
                        errors += 1;
                        if !transient || errors > 3 {
                            return Ok((out, Some(e.kind())));
                        }
                    }
                }
            }
            Err("neither end-of-stream nor an error".to_string())
        };
        match std::panic::catch_unwind(std::panic::AssertUnwindSafe(|| run_manual(fut, &mon, 4 * limit + 64, None))) {
            Ok(Run::Done { value, .. }) => value,
            Ok(Run::LostWakeup { polls }) => Err(format!("lost wake-up after {} polls", polls)),
            Ok(Run::Horizon { polls }) => Err(format!("not finished after {} polls", polls)),
            Err(p) => Err(format!("panic: {}", panic_text(p))),
        }
    };
    st.transitions += mon.calls.load(SeqCst) as u64;
    st.nontrivial.insert(fnv(format!("{}:{}:{}:{:?}:{}:{}:{}", mi, async_source, k, kind, async_consumer, tail, transient).as_bytes()));
    let iface = if async_consumer { "async" } else { "blocking" };
    let srcname = if async_source { "async-source-failing" } else { "blocking-source-failing" };
    let case = || json!({"msg": mi, "source": srcname, "fails_after": k, "kind": format!("{:?}", kind), "consumer": iface, "buffer": tail, "transient": transient, "section": "failing-source"});
    match r {
        Ok((got, end)) => {
            if !expected.starts_with(&got) {
                st.outcome("differs");
                st.violate(format!("{}:{}:stream-corrupt", iface, srcname), format!("{}: delivered bytes are not a prefix of header+attributes ++ payload", case()), case());
            } else if transient {
                // the failure went away: a consumer that read on must have received the complete stream, then EOS
                if end.is_none() && got == expected {
                    st.outcome("complete-after-transient-failure");
                } else if end.is_some() {
                    // an adaptor may also treat the failure as final and keep failing: what it delivered is a prefix
                    // (checked above) and it did not pretend to be complete - nothing was lost silently
                    st.outcome("keeps-failing-after-transient-failure");
                } else {
                    st.outcome("incomplete-after-transient-failure");
                    st.violate(
                        format!("{}:{}:bytes-lost-around-a-transient-failure", iface, srcname),
                        format!("{}: the source failed ONCE ({:?}) after {} payload bytes and then went on; the consumer read on and got {} of {} bytes (ended with {:?})", case(), kind, k, got.len(), expected.len(), end),
                        case(),
                    );
                }
            } else if end.is_none() {
                st.outcome("clean-end");
                st.violate(
                    format!("{}:{}:clean-end-of-stream-before-the-payload-ended", iface, srcname),
                    format!("{}: end-of-stream after {} of {} bytes although the payload source FAILED ({:?}) after {} payload bytes", case(), got.len(), expected.len(), kind, k),
                    case(),
                );
            } else {
                st.outcome(if got.len() == head.len() + k { "failed-after-everything-delivered" } else { "failed-earlier" });
            }
        }
        Err(e) => {
            st.outcome("error");
            st.violate(format!("{}:{}:error", iface, srcname), format!("{}: {}", case(), e), case());
        }
    }
    st.sample(2, case);
}

pub fn run(ctx: &Ctx) -> ! {
    silence_panics();
    let mut rep = Report::new(
        ctx,
        "model_checking",
        "messages {empty operation group, Print-Job request, Get-Printer-Attributes response, bare IppPayload} x payload source {none, blocking cursor, blocking 1-byte dribbler, blocking with Interrupted, async ready, async fragmented, async not-ready with immediate wake, async not-ready with deferred wake (fired by the manual executor / a helper thread under block_on)} x payload length {0,1,2,8191,8192,8193 (+65536, 3 MiB)} x consumer {into_read, into_async_read, into_async_read coming back with a DIFFERENT buffer after every not-ready answer} with EVERY sequence of <= 2 (3) buffer sizes over {0,1,2,3,8,H-1,H,H+1,4096,65536} (a zero-length buffer must return 0 without ending the stream) followed by a fixed size from {7,4096,65536} until end-of-stream; the same streams through read_vectored / poll_read_vectored with five slice shapes (empty first slice, small + large, an empty slice in the middle, two large, two empty + one); plus payload sources (blocking and async) that FAIL after 0, 1, 5, 8192, 8193 bytes with each of 10 error kinds, read through both interfaces: the stream may fail but never ends cleanly before the payload did, and what it delivered is a prefix of the expected stream; the same with a TRANSIENT failure (returned once, then the source goes on) and a consumer that reads on: nothing may be lost or duplicated around the failure (the stream either goes on completely or keeps failing, it never ends cleanly short); plus payloads of 1 GiB + 4097 (thorough: and 4 GiB + 4097) bytes from a pattern generator, verified on the fly, for both source kinds x both interfaces. Oracle: bytes received == to_bytes() ++ payload, then Ok(0) three times (when the payload source is first touched is recorded, not judged). states = distinct (message, source, length, interface); transitions = reads answered by the payload source; non-trivial = non-empty payload",
    );
    rep.assume("deferred wake-ups under the blocking interface are fired by a helper OS thread (block_on must be woken from outside); its timing does not influence the byte stream");
    let msgs = messages();
    let seed = ctx.seed;
    if let Some(p) = &ctx.replay {
        let (_, j) = vmc::report::load_replay(p);
        let mut st = Stats::new();
        if j["section"].as_str() == Some("vectored") {
            println!("replay: vectored-consumer case ({}); re-run the check to reproduce", j);
            std::process::exit(0)
        }
        if j["section"].as_str() == Some("huge") {
            println!("replay: huge-payload case ({}); re-run the check to reproduce", j);
            std::process::exit(0)
        }
        if j["section"].as_str() == Some("failing-source") {
            let kinds: Vec<ErrorKind> = FAULT_KINDS.iter().copied().chain([ErrorKind::InvalidData, ErrorKind::WriteZero, ErrorKind::NotConnected]).collect();
            let kind = kinds.iter().copied().find(|k| Some(format!("{:?}", k).as_str()) == j["kind"].as_str()).unwrap_or(ErrorKind::Other);
            run_fail_case(
                j["msg"].as_u64().unwrap_or(0) as usize,
                j["source"].as_str() == Some("async-source-failing"),
                j["fails_after"].as_u64().unwrap_or(0) as usize,
                kind,
                j["consumer"].as_str() == Some("async"),
                j["buffer"].as_u64().unwrap_or(7) as usize,
                j["transient"].as_bool().unwrap_or(false),
                &msgs,
                seed,
                &mut st,
            );
            for v in &st.violations {
                println!("replay: class={} detail={}", v.class, v.detail);
            }
            rep.absorb(st);
            rep.finish();
        }
        match Case::from_json(&j) {
            Some(c) => run_case(&c, &msgs, seed, &mut st),
            None => {
                eprintln!("MACHINERY-ERROR bad replay");
                std::process::exit(2)
            }
        }
        for v in &st.violations {
            println!("replay: class={} detail={}", v.class, v.detail);
        }
        rep.absorb(st);
        rep.finish();
    }
    let alphabet: [usize; 10] = [0, 1, 2, 3, 8, 1_000_001, 1_000_002, 1_000_003, 4096, 65536];
    let maxp = ctx.tier.pick(2usize, 3usize);
    let mut patterns: Vec<Vec<usize>> = vec![vec![]];
    let mut layer: Vec<Vec<usize>> = vec![vec![]];
    for _ in 0..maxp {
        let mut next = vec![];
        for p in &layer {
            for a in alphabet {
                let mut q = p.clone();
                q.push(a);
                next.push(q);
            }
        }
        patterns.extend(next.iter().cloned());
        layer = next;
    }
    let tails: [usize; 3] = [7, 4096, 65536];
    let lens: Vec<usize> = vec![0, 1, 2, 8191, 8192, 8193];
    let radices = [msgs.len() as u64, N_SOURCES, lens.len() as u64, patterns.len() as u64, tails.len() as u64, 3];
    let total = vmc::explore::product(&radices);
    for p in par_range(ctx.threads, total, 64, Stats::new, |st, idx| {
        let t = vmc::explore::unrank(idx, &radices);
        let c = Case {
            msg: t[0] as usize,
            source: t[1],
            len: lens[t[2] as usize],
            pattern: patterns[t[3] as usize].clone(),
            tail: tails[t[4] as usize],
            async_consumer: t[5] >= 1,
            fresh_buffer_after_pending: t[5] == 2,
        };
        if t[5] == 2 && !(c.source == 6 || c.source == 7) {
            return; // the buffer-switching consumer only differs when the source reports not-ready
        }
        if c.source == 0 && t[2] != 0 {
            return; // "none" has no length dimension
        }
        if c.source == 7 && !c.async_consumer && (c.pattern.len() > 1 || t[0] > 1) {
            return; // helper-thread runs: one-size prefixes and two messages only
        }
        run_case(&c, &msgs, seed, st);
    }) {
        rep.absorb(p);
    }
    if ctx.tier == vmc::report::Tier::Thorough {
        // big payloads: prefixes of length <= 1, tails 4096 / 65536
        let big = [65536usize, 3 << 20];
        let pats: Vec<Vec<usize>> = patterns.iter().filter(|p| p.len() <= 1).cloned().collect();
        let radices = [2u64, N_SOURCES - 1, big.len() as u64, pats.len() as u64, 2, 2];
        for p in par_range(ctx.threads, vmc::explore::product(&radices), 4, Stats::new, |st, idx| {
            let t = vmc::explore::unrank(idx, &radices);
            let c = Case {
                msg: [1usize, 3][t[0] as usize],
                source: t[1] + 1,
                len: big[t[2] as usize],
                pattern: pats[t[3] as usize].clone(),
                tail: [4096usize, 65536][t[4] as usize],
                async_consumer: t[5] == 1,
                fresh_buffer_after_pending: false,
            };
            if c.source == 7 && !c.async_consumer && !c.pattern.is_empty() {
                return;
            }
            run_case(&c, &msgs, seed, st);
        }) {
            rep.absorb(p);
        }
    }
    // vectored consumers: the same streams read through read_vectored / poll_read_vectored with several buffers per
    // call (an empty first slice, small then large, three slices with an empty one in the middle, two large ones)
    let shapes: [&[usize]; 5] = [&[0, 7], &[3, 5], &[1, 0, 4096], &[4096, 4096], &[0, 0, 64]];
    let vlens: [usize; 5] = [0, 1, 9, 8191, 8193];
    let radices = [msgs.len() as u64, N_SOURCES - 1, vlens.len() as u64, shapes.len() as u64, 2];
    let mut vs = Stats::new();
    for p in par_range(ctx.threads, vmc::explore::product(&radices), 16, Stats::new, |st, idx| {
        let t = vmc::explore::unrank(idx, &radices);
        let (mi, source, len, shape, async_consumer) = (t[0] as usize, t[1] + 1, vlens[t[2] as usize], shapes[t[3] as usize], t[4] == 1);
        if source == 7 && !async_consumer {
            return; // deferred wake-ups under the blocking interface need the helper thread of the main section
        }
        st.evaluations += 1;
        st.traces += 1;
        let pay = Arc::new(payload_bytes(len, seed));
        let built = make_payload(source, &pay);
        let mon = built.mon.clone();
        let (head, rd_sync, rd_async): (Vec<u8>, Option<Box<dyn Read>>, Option<Pin<Box<dyn AsyncRead>>>) = match &msgs[mi] {
            Some(m) => {
                let mut req = build_ipp(m);
                let head = req.to_bytes().to_vec();
                *req.payload_mut() = built.payload;
                if async_consumer {
                    (head, None, Some(Box::pin(req.into_async_read())))
                } else {
                    (head, Some(Box::new(req.into_read())), None)
                }
            }
            None => {
                if async_consumer {
                    (vec![], None, Some(Box::pin(built.payload)))
                } else {
                    (vec![], Some(Box::new(built.payload)), None)
                }
            }
        };
        let mut expected = head;
        expected.extend_from_slice(&pay);
        let limit = 4 * expected.len() + 2000;
        let r: Result<Vec<u8>, String> = if let Some(mut rd) = rd_sync {
            match std::panic::catch_unwind(std::panic::AssertUnwindSafe(move || {
                let mut out = vec![];
                let mut bufs: Vec<Vec<u8>> = shape.iter().map(|l| vec![0u8; *l]).collect();
                for _ in 0..limit {
                    let mut slices: Vec<std::io::IoSliceMut> = bufs.iter_mut().map(|b| std::io::IoSliceMut::new(b)).collect();
                    match rd.read_vectored(&mut slices) {
                        Ok(0) => return Ok(out),
                        Ok(mut n) => {
                            if n > shape.iter().sum::<usize>() {
                                return Err("read_vectored returned more than the buffers hold".to_string());
                            }
                            for b in &bufs {
                                let k = n.min(b.len());
                                out.extend_from_slice(&b[..k]);
                                n -= k;
                            }
                        }
                        Err(e) if e.kind() == ErrorKind::Interrupted => continue,
                        Err(e) => return Err(format!("read error {:?}", e.kind())),
                    }
                }
                Err("no end-of-stream".to_string())
            })) {
                Ok(x) => x,
                Err(p) => Err(format!("panic: {}", panic_text(p))),
            }
        } else {
            let mut rd = rd_async.unwrap();
            let fut = async move {
                let mut out = vec![];
                let mut bufs: Vec<Vec<u8>> = shape.iter().map(|l| vec![0u8; *l]).collect();
                for _ in 0..limit {
                    let mut slices: Vec<std::io::IoSliceMut> = bufs.iter_mut().map(|b| std::io::IoSliceMut::new(b)).collect();
                    match rd.read_vectored(&mut slices).await {
                        Ok(0) => return Ok(out),
                        Ok(mut n) => {
                            if n > shape.iter().sum::<usize>() {
                                return Err("poll_read_vectored reported more than the buffers hold".to_string());
                            }
                            for b in &bufs {
                                let k = n.min(b.len());
                                out.extend_from_slice(&b[..k]);
                                n -= k;
                            }
                        }
                        Err(e) => return Err(format!("read error {:?}", e.kind())),
                    }
                }
                Err("no end-of-stream".to_string())
            };
            match std::panic::catch_unwind(std::panic::AssertUnwindSafe(|| run_manual(fut, &mon, 8 * limit + 64, None))) {
                Ok(Run::Done { value, .. }) => value,
                Ok(Run::LostWakeup { polls }) => Err(format!("lost wake-up after {} polls", polls)),
                Ok(Run::Horizon { polls }) => Err(format!("not finished after {} polls", polls)),
                Err(p) => Err(format!("panic: {}", panic_text(p))),
            }
        };
        st.transitions += mon.calls.load(SeqCst) as u64;
        st.nontrivial.insert(idx);
        let iface = if async_consumer { "async" } else { "blocking" };
        let case = json!({"msg": mi, "source": SOURCE_NAMES[source as usize], "payload_len": len, "slices": shape, "consumer": iface, "section": "vectored"});
        match r {
            Ok(got) if got == expected => st.outcome("vectored-exact"),
            Ok(got) => st.violate(
                format!("{}:{}:vectored-stream-{}", iface, SOURCE_NAMES[source as usize], if got.len() < expected.len() { "short" } else if got.len() > expected.len() { "long" } else { "corrupt" }),
                format!("{}: vectored reads delivered {} bytes, expected {}", case, got.len(), expected.len()),
                case.clone(),
            ),
            Err(e) => st.violate(format!("{}:{}:vectored-error", iface, SOURCE_NAMES[source as usize]), format!("{}: {}", case, e), case.clone()),
        }
    }) {
        vs.merge(p);
    }
    rep.section("vectored-consumers", vs);
    // failing payload sources: the stream may fail, but it must never present a clean end-of-stream before the
    // whole payload was delivered, and what it delivered must be a prefix of header+attributes ++ payload
    let kinds: Vec<ErrorKind> = FAULT_KINDS.iter().copied().chain([ErrorKind::InvalidData, ErrorKind::WriteZero, ErrorKind::NotConnected]).collect();
    let fail_at: [usize; 5] = [0, 1, 5, 8192, 8193];
    let radices = [msgs.len() as u64, 2, fail_at.len() as u64, kinds.len() as u64, 2, 3, 2];
    let mut fs = Stats::new();
    for p in par_range(ctx.threads, vmc::explore::product(&radices), 16, Stats::new, |st, idx| {
        let t = vmc::explore::unrank(idx, &radices);
        run_fail_case(t[0] as usize, t[1] == 1, fail_at[t[2] as usize], kinds[t[3] as usize], t[4] == 1, [7usize, 4096, 65536][t[5] as usize], t[6] == 1, &msgs, seed, st);
    }) {
        fs.merge(p);
    }
    rep.section("failing-payload-sources", fs);
    // huge payloads (streamed from a pattern generator, verified on the fly, never stored): a cap, a counter of the
    // wrong width or an adaptor with a limit anywhere in the stream path shows as a short or altered stream
    let sizes: &[u64] = ctx.tier.pick(&[(1u64 << 30) + 4097][..], &[(1u64 << 30) + 4097, (1u64 << 32) + 4097][..]);
    let mut jobs: Vec<(u64, bool, bool)> = vec![];
    for &len in sizes {
        for async_source in [false, true] {
            for async_consumer in [false, true] {
                jobs.push((len, async_source, async_consumer));
            }
        }
    }
    let mut hs = Stats::new();
    for p in vmc::explore::par_slice(ctx.threads, &jobs, Stats::new, |st, _, (len, async_source, async_consumer)| {
        let (len, async_source, async_consumer) = (*len, *async_source, *async_consumer);
        st.evaluations += 1;
        st.traces += 1;
        st.transitions += len >> 16;
        st.nontrivial.insert(fnv(format!("huge:{}:{}:{}", len, async_source, async_consumer).as_bytes()));
        let m = msgs[1].clone().unwrap();
        let r = std::panic::catch_unwind(std::panic::AssertUnwindSafe(move || -> Result<(usize, PatternCheck, Vec<u8>, Vec<u8>), String> {
            let mut req = build_ipp(&m);
            let head = req.to_bytes().to_vec();
            let src = PatternSource::new(Arc::new(vec![]), len);
            *req.payload_mut() = if async_source { IppPayload::new_async(src) } else { IppPayload::new(src) };
            let mut got_head: Vec<u8> = vec![];
            let mut chk = PatternCheck::new();
            let mut buf = vec![0u8; 1 << 16];
            let hl = head.len();
            let feed = |chunk: &[u8], got_head: &mut Vec<u8>, chk: &mut PatternCheck| {
                let need = hl - got_head.len().min(hl);
                let k = need.min(chunk.len());
                got_head.extend_from_slice(&chunk[..k]);
                if k < chunk.len() {
                    chk.feed(&chunk[k..]);
                }
            };
            if async_consumer {
                let mut rd = Box::pin(req.into_async_read());
                let mon = Monitor::new();
                let fut = async {
                    loop {
                        match rd.read(&mut buf).await {
                            Ok(0) => return Ok(()),
                            Ok(n) => feed(&buf[..n], &mut got_head, &mut chk),
                            Err(e) => return Err(format!("read error {:?} after {} payload bytes", e.kind(), chk.received)),
                        }
                    }
                };
                match run_manual(fut, &mon, 1 << 22, None) {
                    Run::Done { value, .. } => value?,
                    _ => return Err("the stream did not finish although the source is always ready".into()),
                }
            } else {
                let mut rd = req.into_read();
                loop {
                    match rd.read(&mut buf) {
                        Ok(0) => break,
                        Ok(n) => feed(&buf[..n], &mut got_head, &mut chk),
                        Err(e) if e.kind() == ErrorKind::Interrupted => continue,
                        Err(e) => return Err(format!("read error {:?} after {} payload bytes", e.kind(), chk.received)),
                    }
                }
            }
            Ok((hl, chk, got_head, head))
        }));
        let iface = if async_consumer { "async" } else { "blocking" };
        let case = json!({"huge_payload": len, "source": if async_source { "async" } else { "blocking" }, "consumer": iface, "section": "huge"});
        match r {
            Ok(Ok((_, chk, got_head, head))) if got_head == head && chk.received == len && chk.first_mismatch.is_none() => st.outcome("huge-stream-exact"),
            Ok(Ok((_, chk, got_head, head))) => st.violate(
                format!("{}:huge-stream-{}", iface, if got_head != head { "header-differs" } else if chk.first_mismatch.is_some() { "corrupt" } else if chk.received < len { "short" } else { "long" }),
                format!("{}: payload of {} bytes came out as {} bytes (first altered byte {:?}; header intact: {})", case, len, chk.received, chk.first_mismatch, got_head == head),
                case.clone(),
            ),
            Ok(Err(e)) => st.violate(format!("{}:huge-stream-error", iface), format!("{}: {}", case, e), case.clone()),
            Err(p) => st.violate(format!("{}:panic", iface), panic_text(p), case.clone()),
        }
    }) {
        hs.merge(p);
    }
    rep.section("huge-payloads", hs);
    rep.set("buffer_size_patterns", json!(patterns.len()));
    rep.finish()
}
