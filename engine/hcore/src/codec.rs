//! C01 (encode∘parse = id), C03 (encoder output is well-formed RFC 8010 and means what was encoded),
//! C20 (serde round trip) — all over the shared message space of `space.rs`.

use crate::adapter::*;
use crate::space::*;
use ipp::prelude::*;
use std::io::Cursor;
use vmc::explore::par_pipeline;
use vmc::r1::{self, CMsg, Msg};
use vmc::report::{Ctx, Report, Stats};
use vmc::{fnv, hex, json, Json};

fn expected(msg: &Msg, payload: &[u8]) -> CMsg {
    let mut e = msg.canon();
    e.data = payload.to_vec();
    e
}

fn nontrivial(msg: &Msg) -> bool {
    msg.groups.iter().any(|g| !g.attrs.is_empty())
}

fn note_coverage(st: &mut Stats, cov: Result<OrderCoverage, String>, case: &Case) {
    match cov {
        Ok(c) => {
            st.count("builds", c.builds);
            st.count("orders_observed", c.observed);
            st.count("orders_possible", c.possible);
        }
        Err(e) => {
            eprintln!("MACHINERY-ERROR {} on {}", e, case.to_json());
            std::process::exit(2);
        }
    }
}

// ------------------------------------------------------------------------------------ C01

/// one instance: serialise (both ways), parse (both parsers), compare
fn c01_instance(inst: IppRequestResponse, payload: &[u8], exp: &CMsg) -> Result<u64, (String, String)> {
    let head = inst.to_bytes().to_vec();
    let mut full = head.clone();
    full.extend_from_slice(payload);
    // the streaming serialisation must be the same bytes
    let mut inst = inst;
    if !payload.is_empty() {
        *inst.payload_mut() = IppPayload::new(Cursor::new(payload.to_vec()));
    }
    let streamed = read_all(inst.into_read()).map_err(|e| ("stream-read".to_string(), e))?;
    if streamed != full {
        return Err(("into_read-differs".into(), format!("into_read() gave {} bytes, to_bytes()+payload {} bytes", streamed.len(), full.len())));
    }
    for (which, out) in [("blocking", parse_blocking(&full)), ("async", parse_async_ready(&full))] {
        match out {
            Outcome::Ok(got) => {
                if let Some(d) = exp.diff(&got) {
                    let cls = if exp.data != got.data && {
                        let mut g2 = got.clone();
                        g2.data = exp.data.clone();
                        exp.diff(&g2).is_none()
                    } {
                        "payload-mismatch"
                    } else {
                        "content-mismatch"
                    };
                    return Err((format!("{}:{}", which, cls), format!("{} parser: encoded {} -> {}", which, hex(&head[..head.len().min(96)]), d)));
                }
            }
            other => {
                return Err((
                    format!("{}:{}", which, other.class()),
                    format!("{} parser rejected the library's own encoding {}: {}", which, hex(&head[..head.len().min(96)]), other.brief()),
                ))
            }
        }
    }
    Ok(fnv(&head))
}

pub fn c01_case(case: &Case, seed: u64, st: &mut Stats) {
    let payload = payload_of(case.payload_kind, seed);
    let exp = expected(&case.msg, &payload);
    st.evaluations += 1;
    if nontrivial(&case.msg) {
        st.nontrivial.insert(fnv(case.to_json().to_string().as_bytes()));
    }
    let mut fails: Vec<(String, String)> = vec![];
    let mut hashes = vec![];
    let r = std::panic::catch_unwind(std::panic::AssertUnwindSafe(|| {
        for_all_orders(&case.msg, |inst, _sig| match c01_instance(inst, &payload, &exp) {
            Ok(h) => hashes.push(h),
            Err(e) => fails.push(e),
        })
    }));
    match r {
        Ok(cov) => note_coverage(st, cov, case),
        Err(p) => fails.push(("panic-in-encoder".into(), panic_text(p))),
    }
    for h in hashes {
        st.states.insert(h);
        st.traces += 1;
    }
    st.outcome(if fails.is_empty() { "roundtrip-equal" } else { "roundtrip-differs" });
    if let Some((cls, detail)) = fails.into_iter().next() {
        st.violate(cls, detail, case.to_json());
    }
    st.sample(2, || case.to_json());
}

// ------------------------------------------------------------------------------------ C03

fn c03_instance(inst: IppRequestResponse, exp: &CMsg) -> Result<u64, (String, String)> {
    let head = inst.to_bytes().to_vec();
    let shown = hex(&head[..head.len().min(96)]);
    let dec = r1::decode(&head).map_err(|e| ("malformed".to_string(), format!("reference decoder rejects {}: {}", shown, e.0)))?;
    if !dec.data.is_empty() {
        return Err(("trailing-octets".into(), format!("{} octets follow the end tag in {}", dec.data.len(), shown)));
    }
    let got = dec.canon();
    if let Some(d) = exp.diff(&got) {
        return Err(("meaning-differs".into(), format!("reference decoder reads {} differently: {}", shown, d)));
    }
    // byte order fully fixed once the attribute order is known: re-encoding what was decoded must
    // reproduce the octets exactly
    let re = r1::encode(&dec);
    if re != head {
        let at = re.iter().zip(head.iter()).position(|(a, b)| a != b).unwrap_or(re.len().min(head.len()));
        return Err(("octets-differ".into(), format!("reference encoding differs from {} at offset {}", shown, at)));
    }
    Ok(fnv(&head))
}

pub fn c03_case(case: &Case, st: &mut Stats) {
    let mut exp = case.msg.canon();
    exp.data.clear();
    st.evaluations += 1;
    if nontrivial(&case.msg) {
        st.nontrivial.insert(fnv(case.msg.to_json().to_string().as_bytes()));
    }
    let mut fails: Vec<(String, String)> = vec![];
    let mut hashes = vec![];
    let r = std::panic::catch_unwind(std::panic::AssertUnwindSafe(|| {
        for_all_orders(&case.msg, |inst, _| match c03_instance(inst, &exp) {
            Ok(h) => hashes.push(h),
            Err(e) => fails.push(e),
        })
    }));
    match r {
        Ok(cov) => note_coverage(st, cov, case),
        Err(p) => fails.push(("panic-in-encoder".into(), panic_text(p))),
    }
    for h in hashes {
        st.states.insert(h);
        st.traces += 1;
    }
    st.outcome(if fails.is_empty() { "well-formed-equal" } else { "defective" });
    if let Some((cls, detail)) = fails.into_iter().next() {
        st.violate(cls, detail, case.to_json());
    }
    st.sample(2, || json!({"case": case.to_json(), "encoded": hex(&build_ipp(&case.msg).to_bytes())}));
}

// ------------------------------------------------------------------------------------ C20

const MARKER: &[u8] = b"PAYLOAD-MARKER-\x01\x02\xff";

fn c20_check(case: &Case) -> Result<(), (String, String)> {
    let exp = {
        let mut e = case.msg.canon();
        e.data.clear();
        e
    };
    let mut inst = build_ipp(&case.msg);
    *inst.payload_mut() = IppPayload::new(Cursor::new(MARKER.to_vec()));
    let text = serde_json::to_string(&inst).map_err(|e| ("serialize-error".to_string(), e.to_string()))?;
    if text.contains("PAYLOAD-MARKER") {
        return Err(("payload-serialised".into(), "payload bytes appear in the JSON text".into()));
    }
    let back: IppRequestResponse = serde_json::from_str(&text).map_err(|e| ("deserialize-error".to_string(), format!("{} on {}", e, &text[..text.len().min(200)])))?;
    let header = back.header().clone();
    let attrs = back.attributes().clone();
    let payload = read_all(back.into_payload()).map_err(|e| ("payload-read".to_string(), e))?;
    if !payload.is_empty() {
        return Err(("payload-not-empty".into(), format!("{} payload bytes after deserialisation", payload.len())));
    }
    let got = cmsg_from_parts(&header, &attrs, vec![]).map_err(|e| ("out-of-model".to_string(), e))?;
    if let Some(d) = exp.diff(&got) {
        return Err(("message-differs".into(), format!("IppRequestResponse JSON round trip: {}", d)));
    }
    // IppAttributes alone
    let text = serde_json::to_string(inst_attrs(&case.msg).attributes()).map_err(|e| ("serialize-error".to_string(), e.to_string()))?;
    let back: IppAttributes = serde_json::from_str(&text).map_err(|e| ("deserialize-error".to_string(), e.to_string()))?;
    let got = cmsg_from_parts(&header, &back, vec![]).map_err(|e| ("out-of-model".to_string(), e))?;
    if let Some(d) = exp.diff(&got) {
        return Err(("attributes-differ".into(), format!("IppAttributes JSON round trip: {}", d)));
    }
    // every bare value
    for g in &case.msg.groups {
        for a in &g.attrs {
            let v = to_ipp_value(&a.values);
            let text = serde_json::to_string(&v).map_err(|e| ("serialize-error".to_string(), e.to_string()))?;
            let back: IppValue = serde_json::from_str(&text).map_err(|e| ("deserialize-error".to_string(), format!("{} on {}", e, &text[..text.len().min(200)])))?;
            if back != v {
                return Err(("value-differs".into(), format!("IppValue JSON round trip changed {:?} into {:?}", v, back)));
            }
        }
    }
    Ok(())
}

fn inst_attrs(m: &Msg) -> IppRequestResponse {
    build_ipp(m)
}

pub fn c20_case(case: &Case, st: &mut Stats) {
    st.evaluations += 1;
    if nontrivial(&case.msg) {
        st.nontrivial.insert(fnv(case.msg.to_json().to_string().as_bytes()));
    }
    let r = std::panic::catch_unwind(|| c20_check(case));
    let res = match r {
        Ok(r) => r,
        Err(p) => Err(("panic".to_string(), panic_text(p))),
    };
    st.states.insert(fnv(case.msg.to_json().to_string().as_bytes()));
    st.traces += 1;
    match res {
        Ok(()) => st.outcome("roundtrip-equal"),
        Err((c, d)) => {
            st.outcome("roundtrip-differs");
            st.violate(c, d, case.to_json());
        }
    }
    st.sample(2, || json!({"case": case.to_json(), "json": serde_json::to_string(&build_ipp(&case.msg)).unwrap_or_default()}));
}

// ------------------------------------------------------------------------------------ drivers

fn run_space(ctx: &Ctx, rep: &mut Report, f: impl Fn(&Case, &mut Stats) + Sync) {
    let tier = ctx.tier;
    let parts = par_pipeline(
        ctx.threads,
        |emit: &mut dyn FnMut(Case)| produce(tier, emit),
        Stats::new,
        |st: &mut Stats, case: Case| {
            st.count(&format!("cases_{}", case.kind), 1);
            st.max_depth = st.max_depth.max(case.msg.max_depth() as u64);
            f(&case, st)
        },
    );
    for p in parts {
        rep.absorb(p);
    }
    rep.set("bounds", json!(format!("{:?}", skel_bounds(tier))));
}

fn replay_case(ctx: &Ctx) -> Option<Case> {
    ctx.replay.as_ref().map(|p| {
        let (_, j) = vmc::report::load_replay(p);
        Case::from_json(&j).unwrap_or_else(|| {
            eprintln!("MACHINERY-ERROR replay file does not hold a message case");
            std::process::exit(2)
        })
    })
}

// ---- mutation histories on ONE message object (differential: the same history without the observations)

const HIST_OPS: [&str; 9] = ["to_bytes()", "header.request_id", "header.operation_or_status", "header.version", "add(op,x=1)", "add(job,y=k)", "add(op,x=2)", "groups_mut().push(printer)", "payload=pp"];

fn apply_hist_op(r: &mut IppRequestResponse, op: usize) {
    match op {
        0 => {
            let _ = r.to_bytes();
        }
        1 => r.header_mut().request_id = r.header().request_id.wrapping_mul(3).wrapping_add(0x0101_0101),
        2 => r.header_mut().operation_or_status = r.header().operation_or_status.wrapping_add(0x0406),
        3 => r.header_mut().version = IppVersion(r.header().version.0 ^ 0x0301),
        4 => r.attributes_mut().add(DelimiterTag::OperationAttributes, IppAttribute::new("x", IppValue::Integer(1))),
        5 => r.attributes_mut().add(DelimiterTag::JobAttributes, IppAttribute::new("y", IppValue::Keyword("k".into()))),
        6 => r.attributes_mut().add(DelimiterTag::OperationAttributes, IppAttribute::new("x", IppValue::Integer(2))),
        7 => r.attributes_mut().groups_mut().push(IppAttributeGroup::new(DelimiterTag::PrinterAttributes)),
        _ => *r.payload_mut() = IppPayload::new(Cursor::new(b"pp".to_vec())),
    }
}

fn run_history(hist: &[usize], with_observations: bool) -> Result<CMsg, String> {
    let mut r = IppRequestResponse::new_response(IppVersion::v1_1(), StatusCode::SuccessfulOk, 7);
    for &op in hist {
        if op == 0 && !with_observations {
            continue;
        }
        apply_hist_op(&mut r, op);
    }
    let bytes = read_all(r.into_read())?;
    let m = r1::decode(&bytes).map_err(|e| format!("encoded message is malformed: {}", e.0))?;
    Ok(m.canon())
}

fn c01_histories(st: &mut Stats, max_len: usize) {
    let mut seqs: Vec<Vec<usize>> = vec![vec![]];
    let mut layer: Vec<Vec<usize>> = vec![vec![]];
    for _ in 0..max_len {
        let mut next = vec![];
        for s in &layer {
            for op in 0..HIST_OPS.len() {
                let mut q = s.clone();
                q.push(op);
                next.push(q);
            }
        }
        seqs.extend(next.iter().cloned());
        layer = next;
    }
    for h in seqs {
        if !h.contains(&0) {
            continue; // no observation in the history: nothing to compare
        }
        st.evaluations += 1;
        st.traces += 1;
        st.transitions += h.len() as u64;
        let names: Vec<&str> = h.iter().map(|o| HIST_OPS[*o]).collect();
        let r = std::panic::catch_unwind(|| (run_history(&h, true), run_history(&h, false)));
        let key = fnv(format!("{:?}", h).as_bytes());
        st.nontrivial.insert(key);
        match r {
            Ok((Ok(a), Ok(b))) => {
                st.states.insert(fnv(format!("{:?}", a).as_bytes()));
                match b.diff(&a) {
                    None => st.outcome("history-independent"),
                    Some(d) => {
                        st.outcome("stale");
                        st.violate("history:encoding-depends-on-earlier-to_bytes", format!("after {:?} the message serialises differently from the same history without the to_bytes() calls: {}", names, d), json!({"history": h}));
                    }
                }
            }
            Ok((a, b)) => st.violate("history:error", format!("{:?}: {:?} / {:?}", names, a.err(), b.err()), json!({"history": h})),
            Err(p) => st.violate("history:panic", format!("{:?}: {}", names, panic_text(p)), json!({"history": h})),
        }
        st.sample(1, || json!({"history": names}));
    }
}

pub fn run_c01(ctx: &Ctx) -> ! {
    silence_panics();
    let mut rep = Report::new(
        ctx,
        "exploration",
        "every message of the bounded value model (skeleton-exhaustive over a 3-leaf alphabet within a node budget; every D-atom in every context class; permutation programs; 16-bit length sweep; attributes named like the five specially treated operation attributes and their look-alikes (other ASCII case, trailing blank / NUL, '_' for '-'), alone and next to the exact name, in the first / a later operation group / a job group; pairs of DISTINCT names that collide under a normalisation (ASCII and Unicode case, trimming, NUL, NFC vs NFD, compatibility forms, truncation to 255 octets, prefix) side by side in one group and in one collection, and the empty member name; names and texts of 70 .. 33 000 octets made of 2-, 3- and 4-octet characters at every alignment) x payload kinds, each rebuilt in fresh maps until every attribute iteration order was observed; built through the public API, serialised by to_bytes()/into_read(), parsed by IppParser and AsyncIppParser, compared as header + ordered groups + name->values maps + payload octets; plus every history of <= 4 (5) operations on ONE message object over {to_bytes(), 3 header mutations, 3 add()s, groups_mut().push, payload set} compared with the same history without the to_bytes() observations (a serialisation must not depend on earlier serialisations). distinct = distinct (message, payload kind); non-trivial = has at least one attribute",
    );
    rep.assume("HashMap iteration orders are covered by observation (all m! orders of every group seen), not by controlling the hasher");
    let seed = ctx.seed;
    if let Some(case) = replay_case(ctx) {
        let mut st = Stats::new();
        c01_case(&case, seed, &mut st);
        for v in &st.violations {
            println!("replay: class={} detail={}", v.class, v.detail);
        }
        rep.absorb(st);
        rep.finish();
    }
    run_space(ctx, &mut rep, |c, st| c01_case(c, seed, st));
    let mut st = Stats::new();
    c01_histories(&mut st, ctx.tier.pick(4, 5));
    rep.section("mutation-histories-on-one-object", st);
    rep.finish()
}

pub fn run_c03(ctx: &Ctx) -> ! {
    silence_panics();
    // R1 self-check: decode∘encode = id over the skeleton space is a unit test of vmc; here the three
    // pinned vectors are re-checked at start (cheap) so a broken reference can never produce verdicts
    let pinned: [&[u8]; 1] = [&[
        1, 1, 0, 0, 0, 0, 0, 0, 4, 0x21, 0x00, 0x04, b't', b'e', b's', b't', 0x00, 0x04, 0x12, 0x34, 0x56, 0x78, 0x21, 0x00, 0x00, 0x00, 0x04,
        0x77, 0x65, 0x43, 0x21, 3,
    ]];
    for p in pinned {
        match r1::decode(p) {
            Ok(m) if r1::encode(&m) == p => {}
            _ => {
                eprintln!("MACHINERY-ERROR reference codec fails its pinned vector");
                std::process::exit(2)
            }
        }
    }
    let mut rep = Report::new(
        ctx,
        "exploration",
        "the C01 message space; for every message and every observed attribute iteration order the library's to_bytes() output is decoded by the independent strict RFC 8010 reference decoder (registered tag per syntax, exact lengths, empty-named additional values with own tag, bracketed collections with member names first, unique names, one end tag, nothing after it), compared with the encoded message, and re-encoded by the reference encoder to the identical octets. distinct = distinct messages; non-trivial = has at least one attribute",
    );
    rep.assume("reference codec R1 is correct (self-checked against the vectors pinned in the repository's tests and decode∘encode=id over the skeleton space)");
    if let Some(case) = replay_case(ctx) {
        let mut st = Stats::new();
        c03_case(&case, &mut st);
        for v in &st.violations {
            println!("replay: class={} detail={}", v.class, v.detail);
        }
        rep.absorb(st);
        rep.finish();
    }
    run_space(ctx, &mut rep, |c, st| {
        if (c.payload_kind == 0 || c.kind != "skel-hdr-payload") && c.kind != "charset-variants" {
            c03_case(c, st)
        }
    });
    rep.finish()
}

pub fn run_c20(ctx: &Ctx) -> ! {
    silence_panics();
    let mut rep = Report::new(
        ctx,
        "exploration",
        "the C01 message space through serde_json::to_string / from_str on IppRequestResponse (carrying a marker payload), IppAttributes and every bare IppValue; compared as header + ordered groups + name->values maps; payload must read empty afterwards and never appear in the JSON. distinct = distinct messages; non-trivial = has at least one attribute",
    );
    if let Some(case) = replay_case(ctx) {
        let mut st = Stats::new();
        c20_case(&case, &mut st);
        for v in &st.violations {
            println!("replay: class={} detail={}", v.class, v.detail);
        }
        rep.absorb(st);
        rep.finish();
    }
    run_space(ctx, &mut rep, |c, st| {
        if c.payload_kind == 0 || c.kind != "skel-hdr-payload" {
            c20_case(c, st)
        }
    });
    rep.finish()
}

#[allow(dead_code)]
pub fn unused(_: Json) {}
