//! C15 — parsing cost is linear: all two-phase periodic input families, allocation monitor (E6),
//! callgrind instruction counts, wall-clock backstop.

use crate::adapter::*;
use ipp::parser::IppParser;
use ipp::reader::IppReader;
use std::alloc::{GlobalAlloc, Layout, System};
use std::cell::Cell;
use std::io::Read;
use std::time::Instant;
use vmc::explore::par_slice;
use vmc::gen::*;
use vmc::report::{Ctx, Report, Stats, Tier};
use vmc::{fnv, json, Json};

// ------------------------------------------------------------------ E6: counting allocator

pub struct Counting;

thread_local! {
    static BYTES: Cell<u64> = const { Cell::new(0) };
    static BLOCKS: Cell<u64> = const { Cell::new(0) };
}

unsafe impl GlobalAlloc for Counting {
    unsafe fn alloc(&self, l: Layout) -> *mut u8 {
        let _ = BYTES.try_with(|c| c.set(c.get() + l.size() as u64));
        let _ = BLOCKS.try_with(|c| c.set(c.get() + 1));
        System.alloc(l)
    }
    unsafe fn dealloc(&self, p: *mut u8, l: Layout) {
        System.dealloc(p, l)
    }
    unsafe fn alloc_zeroed(&self, l: Layout) -> *mut u8 {
        let _ = BYTES.try_with(|c| c.set(c.get() + l.size() as u64));
        let _ = BLOCKS.try_with(|c| c.set(c.get() + 1));
        System.alloc_zeroed(l)
    }
    unsafe fn realloc(&self, p: *mut u8, l: Layout, new_size: usize) -> *mut u8 {
        let _ = BYTES.try_with(|c| c.set(c.get() + new_size as u64));
        let _ = BLOCKS.try_with(|c| c.set(c.get() + 1));
        System.realloc(p, l, new_size)
    }
}

pub fn allocated() -> (u64, u64) {
    (BYTES.with(|c| c.get()), BLOCKS.with(|c| c.get()))
}

// ------------------------------------------------------------------ budgeted source

/// bytes allocated per input byte consumed / constant term. Calibrated on the repaired tree: the
/// costliest family (one-byte group delimiters, each creating a group with an empty map) allocates
/// < 260 B and < 0.02 blocks... per byte; see evidence `max_bytes_per_byte`. The bound below is > 4x that.
pub const C_BYTES: u64 = 1200;
pub const C0_BYTES: u64 = 1 << 16;
pub const C_BLOCKS: u64 = 6;
pub const C0_BLOCKS: u64 = 256;

struct Budgeted {
    data: std::sync::Arc<Vec<u8>>,
    pos: usize,
    base: (u64, u64),
    tripped: std::sync::Arc<std::sync::atomic::AtomicBool>,
    delivered: std::sync::Arc<std::sync::atomic::AtomicUsize>,
}

impl Read for Budgeted {
    fn read(&mut self, buf: &mut [u8]) -> std::io::Result<usize> {
        // the allocator only counts; the budget is enforced here, at the parser's next read
        let (b, k) = allocated();
        let used_b = b - self.base.0;
        let used_k = k - self.base.1;
        let n = self.pos as u64;
        if used_b > C_BYTES * n + C0_BYTES || used_k > C_BLOCKS * n + C0_BLOCKS {
            self.tripped.store(true, std::sync::atomic::Ordering::SeqCst);
            return Err(std::io::Error::new(std::io::ErrorKind::Other, "allocation budget exceeded"));
        }
        let n = buf.len().min(self.data.len() - self.pos);
        buf[..n].copy_from_slice(&self.data[self.pos..self.pos + n]);
        self.pos += n;
        self.delivered.store(self.pos, std::sync::atomic::Ordering::SeqCst);
        Ok(n)
    }
}

#[derive(Debug, Clone)]
pub struct Cost {
    pub input: usize,
    pub consumed: usize,
    pub bytes: u64,
    pub blocks: u64,
    pub nanos: u64,
    pub tripped: bool,
    pub ok: bool,
}

#[inline(never)]
pub fn measured_parse(data: std::sync::Arc<Vec<u8>>) -> Cost {
    use std::sync::atomic::{AtomicBool, AtomicUsize, Ordering::SeqCst};
    let tripped = std::sync::Arc::new(AtomicBool::new(false));
    let delivered = std::sync::Arc::new(AtomicUsize::new(0));
    let input = data.len();
    let base = allocated();
    let src = Budgeted {
        data,
        pos: 0,
        base,
        tripped: tripped.clone(),
        delivered: delivered.clone(),
    };
    let t0 = Instant::now();
    let r = std::panic::catch_unwind(std::panic::AssertUnwindSafe(|| IppParser::new(IppReader::new(src)).parse_parts()));
    let nanos = t0.elapsed().as_nanos() as u64;
    let after = allocated();
    let ok = matches!(r, Ok(Ok(_)));
    // the result is dropped on a thread with a large stack by the caller's frame; nesting is bounded by the parser
    drop(r);
    Cost {
        input,
        consumed: delivered.load(SeqCst),
        bytes: after.0 - base.0,
        blocks: after.1 - base.1,
        nanos,
        tripped: tripped.load(SeqCst),
        ok,
    }
}

// ------------------------------------------------------------------ families

#[derive(Clone, Debug, PartialEq, Eq)]
pub enum Family {
    /// header · p · u^n · v^n · s · end
    Periodic(Periodic),
    /// one named value of n octets with this tag
    ValueLen { tag: u8 },
    /// n distinct attribute names (hash-map growth)
    DistinctNames,
    /// n members with distinct names inside one collection
    DistinctMembers,
    /// ONE name of 8n octets (at most 65 535) carrying n values: an attribute (member = false) or a collection member
    /// (member = true). Cost that is proportional to name length x number of values shows as quadratic.
    LongNameManyValues { member: bool },
}

impl Family {
    pub fn name(&self) -> String {
        match self {
            Family::Periodic(f) => f.name(),
            Family::ValueLen { tag } => format!("value[{:#04x}] of n octets", tag),
            Family::DistinctNames => "n attributes with distinct names".into(),
            Family::DistinctMembers => "collection with n distinct members".into(),
            Family::LongNameManyValues { member } => format!("one {} with a name of 8n octets and n values", if *member { "collection member" } else { "attribute" }),
        }
    }
    pub fn to_json(&self) -> Json {
        match self {
            Family::Periodic(f) => json!({"p": f.p, "u": f.u, "v": f.v, "s": f.s}),
            Family::ValueLen { tag } => json!({"value_tag": tag}),
            Family::DistinctNames => json!("distinct-names"),
            Family::DistinctMembers => json!("distinct-members"),
            Family::LongNameManyValues { member } => json!({"long_name_many_values": member}),
        }
    }
    pub fn from_json(j: &Json) -> Option<Family> {
        if j.as_str() == Some("distinct-names") {
            return Some(Family::DistinctNames);
        }
        if j.as_str() == Some("distinct-members") {
            return Some(Family::DistinctMembers);
        }
        if let Some(m) = j.get("long_name_many_values") {
            return Some(Family::LongNameManyValues { member: m.as_bool()? });
        }
        if let Some(t) = j.get("value_tag") {
            return Some(Family::ValueLen { tag: t.as_u64()? as u8 });
        }
        let f = |k: &str| -> Option<Vec<usize>> { Some(j.get(k)?.as_array()?.iter().map(|x| x.as_u64().unwrap_or(0) as usize).collect()) };
        Some(Family::Periodic(Periodic { p: f("p").unwrap_or_default(), u: f("u")?, v: f("v")?, s: f("s").unwrap_or_default() }))
    }
    pub fn bytes(&self, n: usize) -> Vec<u8> {
        let mut b = TOK_HEADER.to_vec();
        match self {
            Family::Periodic(f) => {
                b = f.bytes(n);
                b.push(3);
            }
            Family::ValueLen { tag } => {
                let n = n.min(65535);
                b.push(1);
                b.push(*tag);
                b.extend_from_slice(&[0, 1, b'v']);
                b.extend_from_slice(&(n as u16).to_be_bytes());
                b.extend(std::iter::repeat(0x41).take(n));
                b.push(3);
            }
            Family::DistinctNames => {
                b.push(1);
                for i in 0..n {
                    let name = format!("a{}", i);
                    b.push(0x21);
                    b.extend_from_slice(&(name.len() as u16).to_be_bytes());
                    b.extend_from_slice(name.as_bytes());
                    b.extend_from_slice(&[0, 4, 0, 0, 0, 1]);
                }
                b.push(3);
            }
            Family::DistinctMembers => {
                b.push(1);
                b.extend_from_slice(&[0x34, 0, 1, b'c', 0, 0]);
                for i in 0..n {
                    let name = format!("m{}", i);
                    b.extend_from_slice(&[0x4a, 0, 0]);
                    b.extend_from_slice(&(name.len() as u16).to_be_bytes());
                    b.extend_from_slice(name.as_bytes());
                    b.extend_from_slice(&[0x21, 0, 0, 0, 4, 0, 0, 0, 1]);
                }
                b.extend_from_slice(&[0x37, 0, 0, 0, 0, 3]);
            }
            Family::LongNameManyValues { member } => {
                let name_len = (8 * n).min(65535);
                b.push(1);
                if *member {
                    b.extend_from_slice(&[0x34, 0, 1, b'c', 0, 0]);
                    b.extend_from_slice(&[0x4a, 0, 0]);
                    b.extend_from_slice(&(name_len as u16).to_be_bytes());
                    b.extend(std::iter::repeat(b'n').take(name_len));
                    for _ in 0..n {
                        b.extend_from_slice(&[0x21, 0, 0, 0, 4, 0, 0, 0, 1]);
                    }
                    b.extend_from_slice(&[0x37, 0, 0, 0, 0]);
                } else {
                    b.push(0x21);
                    b.extend_from_slice(&(name_len as u16).to_be_bytes());
                    b.extend(std::iter::repeat(b'n').take(name_len));
                    b.extend_from_slice(&[0, 4, 0, 0, 0, 1]);
                    for _ in 1..n {
                        b.extend_from_slice(&[0x21, 0, 0, 0, 4, 0, 0, 0, 1]);
                    }
                }
                b.push(3);
            }
        }
        b
    }
}

pub fn families(tier: Tier) -> Vec<Family> {
    let mut out: Vec<Family> = vec![];
    let mut seen = std::collections::HashSet::new();
    let mut add = |fs: Vec<Periodic>, out: &mut Vec<Family>| {
        for f in fs {
            if seen.insert(f.name()) {
                out.push(Family::Periodic(f));
            }
        }
    };
    // two-phase families (no prefix / suffix) with the longer words
    add(periodic_families(0, 2, tier.pick(1, 2), 0), &mut out);
    // a one-token prefix establishes a state (inside a collection, after a name, in a group) and a
    // one-token suffix closes it: p · u^n · v^n · s
    add(periodic_families(1, 1, 1, 1), &mut out);
    // a state, a wide phase, then a phase of two-token units (e.g. one wide collection, then many narrow ones)
    add(periodic_families(1, 1, 2, 0), &mut out);
    if tier == Tier::Thorough {
        add(periodic_families(2, 1, 1, 1), &mut out);
        add(periodic_families(1, 2, 1, 1), &mut out);
    }
    for tag in 0x10..=0x4au8 {
        out.push(Family::ValueLen { tag });
    }
    out.push(Family::DistinctNames);
    out.push(Family::DistinctMembers);
    out.push(Family::LongNameManyValues { member: false });
    out.push(Family::LongNameManyValues { member: true });
    out
}

fn per(p: &[usize], u: &[usize], v: &[usize], s: &[usize]) -> Family {
    Family::Periodic(Periodic { p: p.to_vec(), u: u.to_vec(), v: v.to_vec(), s: s.to_vec() })
}

fn judge_alloc(f: &Family, n: usize, c: &Cost) -> Option<(String, String)> {
    let nb = c.consumed as u64;
    if c.tripped || c.bytes > C_BYTES * nb + C0_BYTES || c.blocks > C_BLOCKS * nb + C0_BLOCKS {
        return Some((
            "allocation-superlinear".into(),
            format!(
                "family {} at n={} ({} input bytes, {} consumed): {} bytes / {} blocks allocated while parsing{} — bound is {}*consumed+{} bytes, {}*consumed+{} blocks",
                f.name(),
                n,
                c.input,
                c.consumed,
                c.bytes,
                c.blocks,
                if c.tripped { " (stopped by the budget)" } else { "" },
                C_BYTES,
                C0_BYTES,
                C_BLOCKS,
                C0_BLOCKS
            ),
        ));
    }
    None
}

/// run one (family, n) under callgrind in a child process; returns instructions executed inside measured_parse
fn callgrind_ir(f: &Family, n: usize) -> Result<u64, String> {
    let exe = std::env::current_exe().map_err(|e| e.to_string())?;
    let out = std::env::temp_dir().join(format!("vmc-cg-{}-{:x}-{}.out", std::process::id(), fnv(f.name().as_bytes()), n));
    let r = std::process::Command::new("valgrind")
        .arg("--tool=callgrind")
        .arg(format!("--callgrind-out-file={}", out.display()))
        .arg("--collect-atstart=no")
        .arg("--toggle-collect=*measured_parse*")
        .arg("--dump-instr=no")
        .arg(&exe)
        .arg("C15")
        .arg("--one")
        .arg(f.to_json().to_string())
        .arg(n.to_string())
        .stdout(std::process::Stdio::null())
        .stderr(std::process::Stdio::piped())
        .output()
        .map_err(|e| format!("cannot run valgrind: {}", e))?;
    if !r.status.success() {
        let _ = std::fs::remove_file(&out);
        return Err(format!("valgrind run failed: {}", String::from_utf8_lossy(&r.stderr).lines().last().unwrap_or("")));
    }
    let text = std::fs::read_to_string(&out).map_err(|e| e.to_string())?;
    let _ = std::fs::remove_file(&out);
    for line in text.lines() {
        if let Some(rest) = line.strip_prefix("summary:").or_else(|| line.strip_prefix("totals:")) {
            if let Some(v) = rest.split_whitespace().next().and_then(|x| x.parse::<u64>().ok()) {
                return Ok(v);
            }
        }
    }
    Err("no summary line in callgrind output".into())
}

pub fn run(ctx: &Ctx) -> ! {
    silence_panics();
    // child mode for callgrind: parse one (family, n) and exit
    if ctx.extra.first().map(|s| s.as_str()) == Some("--one") {
        let f = Family::from_json(&serde_json::from_str(&ctx.extra[1]).unwrap()).unwrap();
        let n: usize = ctx.extra[2].parse().unwrap();
        let data = std::sync::Arc::new(f.bytes(n));
        let c = std::thread::Builder::new().stack_size(64 << 20).spawn(move || measured_parse(data)).unwrap().join().unwrap();
        println!("{:?}", c);
        std::process::exit(0);
    }
    let mut rep = Report::new(
        ctx,
        "exploration",
        "EVERY periodic family header·p·u^n·v^n·s·end with p, u, v, s words over the 16-token wire alphabet (two-phase: |u| <= 2, |v| <= 1 quick / <= 2 thorough; with a one-token prefix and suffix: |p|,|u|,|v|,|s| <= 1; prefix + two-token second phase: |p|,|u| <= 1, |v| <= 2; thorough also |p| <= 2 or |u| <= 2; nesting = (beg)^n(end)^n, wide sets = (+int)^n, many groups = (delimiter)^n, many members = (member value)^n ..., well-formed or not), the value-length family for every tag 0x10-0x4a, n distinct attribute names, n distinct members; n = 64, 256, 1024, 4096 repetitions (thorough: up to 1 MiB of input for the costliest families). Monitor: bytes and blocks allocated during parse (counting global allocator, budget enforced at the parser's next read) <= c*consumed + c0 with ONE constant for all families; instruction counts under callgrind at n, 2n, 4n for the costliest and the structurally dangerous families must grow < 2.6x per doubling; wall-clock only as a 100x backstop. distinct = (family, n); non-trivial = parse consumed more than the header",
    );
    rep.assume("bounded evidence for an asymptotic statement: every periodic family of the stated syntactic class up to the stated size; an aperiodic adversarial input is outside the class");
    rep.assume("allocation constants C_BYTES/C_BLOCKS were calibrated once on the repaired tree with a > 4x margin");
    let tier = ctx.tier;

    if let Some(p) = &ctx.replay {
        let (_, j) = vmc::report::load_replay(p);
        let f = Family::from_json(&j["family"]).unwrap_or(Family::DistinctNames);
        let n = j["n"].as_u64().unwrap_or(64) as usize;
        let data = std::sync::Arc::new(f.bytes(n));
        let c = std::thread::Builder::new().stack_size(64 << 20).spawn(move || measured_parse(data)).unwrap().join().unwrap();
        let mut st = Stats::new();
        st.evaluations = 1;
        println!("replay: {} n={} -> {:?}", f.name(), n, c);
        if let Some((cl, d)) = judge_alloc(&f, n, &c) {
            println!("replay: class={} detail={}", cl, d);
            st.violate(cl, d, j.clone());
        }
        if j.get("ir").is_some() {
            for m in [n, 2 * n, 4 * n] {
                println!("replay: callgrind Ir at n={}: {:?}", m, callgrind_ir(&f, m));
            }
        }
        rep.absorb(st);
        rep.finish();
    }

    let fams = families(tier);
    let sizes: [usize; 4] = [64, 256, 1024, 4096];
    // (1) allocation monitor over every family and size
    let results = par_slice(ctx.threads, &fams, || (Stats::new(), Vec::<(usize, f64, f64, u64)>::new()), |acc, fi, f| {
        let (st, table) = acc;
        let mut worst_bpb = 0f64;
        let mut worst_npb = 0f64;
        let mut last_ns = 0;
        // the big product sets run at fewer sizes: two for a prefix with a two-token second phase, one for the
        // thorough-only sets with a two-token prefix or first phase
        let few = matches!(f, Family::Periodic(x) if !x.p.is_empty() && x.v.len() == 2);
        let single = matches!(f, Family::Periodic(x) if x.p.len() == 2 || (!x.p.is_empty() && x.u.len() == 2));
        for &n in sizes.iter().filter(|n| (!few || **n == 256 || **n == 4096) && (!single || **n == 1024)) {
            let data = std::sync::Arc::new(f.bytes(n));
            // min of 2 runs for the time; allocation is deterministic
            let c = measured_parse(data.clone());
            let c2 = measured_parse(data);
            st.evaluations += 1;
            st.traces += 1;
            st.transitions += c.consumed as u64;
            let key = fnv(format!("{}:{}", f.name(), n).as_bytes());
            st.states.insert(key);
            if c.consumed > 9 {
                st.nontrivial.insert(key);
            }
            st.outcome(if c.ok { "parsed" } else { "rejected" });
            if let Some((cl, d)) = judge_alloc(f, n, &c) {
                st.violate(cl, d, json!({"family": f.to_json(), "n": n}));
                break;
            }
            if c.consumed > 64 {
                worst_bpb = worst_bpb.max(c.bytes as f64 / c.consumed as f64);
                worst_npb = worst_npb.max(c.nanos.min(c2.nanos) as f64 / c.consumed as f64);
            }
            last_ns = c.nanos.min(c2.nanos);
        }
        table.push((fi, worst_bpb, worst_npb, last_ns));
        st.sample(1, || json!({"family": f.name(), "bytes_per_input_byte": worst_bpb}));
    });
    let mut s = Stats::new();
    let mut table: Vec<(usize, f64, f64, u64)> = vec![];
    for (st, t) in results {
        s.merge(st);
        table.extend(t);
    }
    let max_bpb = table.iter().map(|t| t.1).fold(0f64, f64::max);
    rep.section("allocation-monitor", s);
    rep.set("max_bytes_allocated_per_input_byte", json!(max_bpb));
    rep.set("families", json!(fams.len()));

    // (2) wall-clock backstop: time per byte at the largest size must not exceed 100x the median family
    let mut npb: Vec<f64> = table.iter().map(|t| t.2).filter(|x| *x > 0.0).collect();
    npb.sort_by(|a, b| a.partial_cmp(b).unwrap());
    let median = npb.get(npb.len() / 2).copied().unwrap_or(1.0).max(0.5);
    let mut s = Stats::new();
    for t in &table {
        s.evaluations += 1;
        if t.2 > 100.0 * median && t.3 > 20_000_000 {
            // confirm sequentially before believing a timing
            let f = &fams[t.0];
            let data = std::sync::Arc::new(f.bytes(4096));
            let again = (0..3).map(|_| measured_parse(data.clone())).map(|c| c.nanos as f64 / c.consumed.max(1) as f64).fold(f64::MAX, f64::min);
            if again > 100.0 * median {
                s.violate(
                    "time-superlinear",
                    format!("family {}: {:.0} ns per input byte at n=4096, median family {:.1} ns", f.name(), again, median),
                    json!({"family": f.to_json(), "n": 4096}),
                );
            }
        }
    }
    s.outcome("timed");
    rep.section("wall-clock-backstop", s);
    rep.set("median_ns_per_byte", json!(median));

    // (3) callgrind doubling check on the costliest families + the structurally dangerous ones
    let mut pick: Vec<usize> = vec![];
    let danger: Vec<Family> = vec![
        per(&[], &[10], &[13], &[]),     // nesting, no member names
        per(&[], &[11, 10], &[13], &[]), // nesting with member names
        per(&[], &[9], &[], &[]),        // unclosed nesting
        per(&[], &[7], &[], &[]),        // wide set without a name
        per(&[], &[5, 7], &[], &[]),     // same name again and again + additional
        per(&[], &[5], &[], &[]),        // identical names
        per(&[], &[0], &[], &[]),        // groups
        per(&[], &[11, 7], &[], &[]),    // members outside collections
        per(&[9], &[7], &[], &[13]),     // one collection holding n values without a member name
        per(&[9], &[11], &[], &[13]),    // one collection holding n member names without values
        per(&[5], &[7], &[], &[0]),      // one wide set closed by a group switch
        Family::DistinctNames,
        Family::DistinctMembers,
        Family::LongNameManyValues { member: false },
        Family::LongNameManyValues { member: true },
    ];
    for d in &danger {
        if let Some(i) = fams.iter().position(|f| f == d) {
            pick.push(i);
        }
    }
    let mut by_time = table.clone();
    by_time.sort_by(|a, b| b.2.partial_cmp(&a.2).unwrap());
    for t in by_time.iter().take(tier.pick(6, 30)) {
        if !pick.contains(&t.0) {
            pick.push(t.0);
        }
    }
    // wide set with a name in front: (int:a)(+int)^n
    let base_n = tier.pick(512usize, 2048usize);
    let jobs: Vec<(usize, usize)> = pick.iter().flat_map(|&fi| [base_n, 2 * base_n, 4 * base_n].into_iter().map(move |n| (fi, n))).collect();
    let irs = par_slice(ctx.threads, &jobs, Vec::new, |acc: &mut Vec<(usize, usize, Result<u64, String>)>, _, &(fi, n)| {
        acc.push((fi, n, callgrind_ir(&fams[fi], n)));
    });
    let irs: Vec<(usize, usize, Result<u64, String>)> = irs.into_iter().flatten().collect();
    let mut s = Stats::new();
    let mut ir_rows = vec![];
    for &fi in &pick {
        let get = |n: usize| irs.iter().find(|r| r.0 == fi && r.1 == n).map(|r| r.2.clone());
        let (a, b, c) = (get(base_n), get(2 * base_n), get(4 * base_n));
        match (a, b, c) {
            (Some(Ok(a)), Some(Ok(b)), Some(Ok(c))) => {
                s.evaluations += 3;
                s.traces += 3;
                let r1 = b as f64 / a.max(1) as f64;
                let r2 = c as f64 / b.max(1) as f64;
                ir_rows.push(json!({"family": fams[fi].name(), "ir": [a, b, c], "growth": [r1, r2]}));
                s.nontrivial.insert(fi as u64);
                s.states.insert(fi as u64);
                if a > 20_000 && (r1 >= 2.6 && r2 >= 2.6) {
                    s.outcome("superlinear");
                    s.violate(
                        "instructions-superlinear",
                        format!("family {}: {} / {} / {} instructions at n = {} / {} / {} (growth {:.2}x, {:.2}x per doubling)", fams[fi].name(), a, b, c, base_n, 2 * base_n, 4 * base_n, r1, r2),
                        json!({"family": fams[fi].to_json(), "n": base_n, "ir": true}),
                    );
                } else {
                    s.outcome("linear");
                }
            }
            other => {
                eprintln!("MACHINERY-ERROR callgrind measurement failed for {}: {:?}", fams[fi].name(), other);
                std::process::exit(2);
            }
        }
    }
    rep.section("callgrind-doubling", s);
    rep.set("callgrind", Json::Array(ir_rows));

    // (4) thorough: up to 1 MiB of input for the costliest families (allocation + time per byte)
    if tier == Tier::Thorough {
        let mut top: Vec<usize> = pick.clone();
        let mut by_alloc = table.clone();
        by_alloc.sort_by(|a, b| b.1.partial_cmp(&a.1).unwrap());
        for t in by_alloc.iter().take(100).chain(by_time.iter().take(100)) {
            if !top.contains(&t.0) {
                top.push(t.0);
            }
        }
        let res = par_slice(ctx.threads, &top, Stats::new, |st, _, &fi| {
            let f = &fams[fi];
            let unit = f.bytes(1024).len().saturating_sub(9).max(1) as f64 / 1024.0;
            let mut n = 8192usize;
            let mut per_byte: Vec<(usize, f64)> = vec![];
            loop {
                let bytes = f.bytes(n);
                if bytes.len() > (1 << 20) + 64 {
                    break;
                }
                let data = std::sync::Arc::new(bytes);
                let c = std::thread::Builder::new().stack_size(256 << 20).spawn(move || measured_parse(data)).unwrap().join().unwrap();
                st.evaluations += 1;
                st.traces += 1;
                st.transitions += c.consumed as u64;
                st.states.insert(fnv(format!("{}:{}", f.name(), n).as_bytes()));
                st.nontrivial.insert(fnv(format!("{}:{}", f.name(), n).as_bytes()));
                st.outcome(if c.ok { "parsed" } else { "rejected" });
                if let Some((cl, d)) = judge_alloc(f, n, &c) {
                    st.violate(cl, d, json!({"family": f.to_json(), "n": n}));
                    break;
                }
                if c.consumed > 4096 {
                    per_byte.push((n, c.nanos as f64 / c.consumed as f64));
                }
                if matches!(f, Family::ValueLen { .. }) && n >= 65535 {
                    break;
                }
                n *= 2;
                let _ = unit;
            }
            if let (Some(first), Some(last)) = (per_byte.first(), per_byte.last()) {
                if last.1 > 100.0 * first.1.max(1.0) {
                    st.violate(
                        "time-superlinear",
                        format!("family {}: {:.1} ns/byte at n={} but {:.1} ns/byte at n={}", f.name(), first.1, first.0, last.1, last.0),
                        json!({"family": f.to_json(), "n": last.0}),
                    );
                }
            }
        });
        let mut s = Stats::new();
        for r in res {
            s.merge(r);
        }
        rep.section("up-to-1MiB", s);
    }
    rep.finish()
}
