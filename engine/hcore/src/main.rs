mod adapter;
mod codec;
mod space;

fn main() {
    let ctx = vmc::report::Ctx::from_args();
    match ctx.id.as_str() {
        "C01" => codec::run_c01(&ctx),
        "C03" => codec::run_c03(&ctx),
        "C20" => codec::run_c20(&ctx),
        other => {
            eprintln!("MACHINERY-ERROR unknown check {}", other);
            std::process::exit(2)
        }
    }
}
