mod adapter;
mod builders;
mod c02;
mod c04;
mod c08;
mod c15;
mod c17;
mod c19;
mod codec;
mod space;
mod streams;
mod tables;

#[global_allocator]
static ALLOC: c15::Counting = c15::Counting;

fn main() {
    let ctx = vmc::report::Ctx::from_args();
    // the process environment is part of the environment: whatever the library derives from it shows up as a
    // difference from what the arguments alone imply
    for (k, v) in [("USER", "vmc-env-user"), ("USERNAME", "vmc-env-username"), ("LOGNAME", "vmc-env-logname"), ("LANG", "tlh_QX.UTF-8"), ("LC_ALL", "tlh_QX.UTF-8"), ("LC_MESSAGES", "tlh_QX.UTF-8"), ("LANGUAGE", "tlh"), ("HOSTNAME", "vmc-env-host"), ("IPP_PORT", "1"), ("CUPS_SERVER", "vmc-env-cups")] {
        std::env::set_var(k, v);
    }
    vmc::install_watchdog(if ctx.tier == vmc::report::Tier::Thorough { 6 * 3600 } else { 45 * 60 }, format!("check {}", ctx.id));
    // logging enabled is part of the environment: statements inside log macros only run when a logger accepts them.
    // C15 measures cost without trace output (error level only).
    vmc::install_logger(if ctx.id == "C15" { log::LevelFilter::Error } else { log::LevelFilter::Trace });
    match ctx.id.as_str() {
        "C01" => codec::run_c01(&ctx),
        "C02" => c02::run(&ctx),
        "C03" => codec::run_c03(&ctx),
        "C20" => codec::run_c20(&ctx),
        "C04" => c04::run(&ctx),
        "C05" => streams::run_c05(&ctx),
        "C06" => streams::run_c06(&ctx),
        "C07" => streams::run_c07(&ctx),
        "C08" => c08::run(&ctx),
        "C09" => builders::run_c09(&ctx),
        "C10" => builders::run_c10(&ctx),
        "C13" => tables::run_c13(&ctx),
        "C14" => tables::run_c14(&ctx),
        "C15" => c15::run(&ctx),
        "C16" => tables::run_c16(&ctx),
        "C17" => c17::run(&ctx),
        "C19" => c19::run(&ctx),
        other => {
            eprintln!("MACHINERY-ERROR unknown check {}", other);
            std::process::exit(2)
        }
    }
}
