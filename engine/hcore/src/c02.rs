//! C02 — parsers are total on arbitrary bytes (E1 + E3: process-isolated sweeps).
//!
//! Parent: splits every family into shards, runs each shard in a worker *process* of this binary,
//! merges the workers' reports. A worker that dies by a signal or stalls is an observation about the
//! case at its heartbeat: the parent narrows it down (per-case heartbeat), re-runs that single case
//! alone in a fresh process and reports it only if it fails again.

use crate::adapter::*;
use ipp::prelude::*;
use std::io::Write;
use std::os::unix::fs::FileExt;
use std::os::unix::process::ExitStatusExt;
use std::process::{Command, Stdio};
use std::time::{Duration, Instant};
use vmc::gen::*;
use vmc::report::{Ctx, Report, Stats, Tier};
use vmc::{fnv, hex, json, unhex, Json};

/// worker threads run every case on a stack of this size (Rust's default for spawned threads)
const WORKER_STACK: usize = 2 << 20;
const BLOCK: u64 = 1024;

// ------------------------------------------------------------------ families

#[derive(Clone, Copy, Debug, PartialEq, Eq)]
enum Fam {
    Bytes,
    Grid,
    WithLang,
    Tokens,
    Mutations,
    Splices,
    Bombs,
    /// every periodic family over the EXTENDED token alphabet at n = 400: screened in-process for
    /// nesting deeper than any legitimate limit (iterative depth measure, result leaked, never dropped)
    Deep,
    /// the same family at ~1 MiB, result fully used: run only for screened candidates, one process each
    DeepConfirm,
}

const FAMS: [(Fam, &str); 9] = [
    (Fam::Bytes, "bytes-after-header"),
    (Fam::Grid, "tag-length-fill-grid"),
    (Fam::WithLang, "with-language-inner-lengths"),
    (Fam::Tokens, "token-sequences"),
    (Fam::Mutations, "corpus-mutations"),
    (Fam::Splices, "corpus-splices"),
    (Fam::Bombs, "structural-bombs"),
    (Fam::Deep, "periodic-families-deep-nesting-screen"),
    (Fam::DeepConfirm, "periodic-families-deep-nesting-confirm"),
];

fn fam_by_name(s: &str) -> Fam {
    FAMS.iter().find(|f| f.1 == s).map(|f| f.0).unwrap_or_else(|| {
        eprintln!("MACHINERY-ERROR unknown family {}", s);
        std::process::exit(2)
    })
}
fn fam_name(f: Fam) -> &'static str {
    FAMS.iter().find(|x| x.0 == f).unwrap().1
}

/// what to do with the bytes of a case
#[derive(Clone, Debug)]
enum Input {
    Message(Vec<u8>),
    /// stand-alone value decoder
    Value(u8, Vec<u8>),
    /// parse, measure the nesting depth iteratively, never drop a deep result
    Screen(Vec<u8>),
}

const GRID_LENS: [u32; 19] = [0, 1, 2, 3, 4, 5, 6, 7, 8, 9, 10, 11, 12, 13, 14, 15, 16, 0xffff, 0x1ffff];
const LANG_LENS: [u16; 9] = [0, 1, 2, 3, 4, 5, 6, 0xfffe, 0xffff];

struct Space {
    tier: Tier,
    corpus: Vec<(String, Vec<u8>)>,
    mut_offsets: Vec<u64>,
    splice_msgs: Vec<Vec<u8>>,
    splice_offsets: Vec<u64>,
}

fn tag_bytes_all() -> Vec<u8> {
    (0u16..=255).map(|b| b as u8).collect()
}

fn count_mutations(b: &[u8]) -> u64 {
    let mut n = 0;
    mutations(b, &tag_bytes_all(), |_, _| n += 1);
    n
}

impl Space {
    fn new(tier: Tier) -> Space {
        let corpus: Vec<(String, Vec<u8>)> = corpus().into_iter().filter(|(_, b)| b.len() <= 2000).collect();
        let mut mut_offsets = vec![0u64];
        for (_, b) in &corpus {
            let last = *mut_offsets.last().unwrap();
            mut_offsets.push(last + count_mutations(b));
        }
        let splice_msgs: Vec<Vec<u8>> = corpus.iter().filter(|(n, b)| (n.starts_with("tok[") && b.len() <= 40) || n.starts_with("atom[int") || n == "stopped-response").map(|(_, b)| b.clone()).collect();
        let mut splice_offsets = vec![0u64];
        for a in &splice_msgs {
            for b in &splice_msgs {
                let last = *splice_offsets.last().unwrap();
                splice_offsets.push(last + ((spans(a).len() + 1) * (spans(b).len() + 1)) as u64);
            }
        }
        Space {
            tier,
            corpus,
            mut_offsets,
            splice_msgs,
            splice_offsets,
        }
    }

    fn size(&self, f: Fam) -> u64 {
        match f {
            Fam::Bytes => {
                let k = self.tier.pick(2u32, 3u32);
                (0..=k).map(|l| 256u64.pow(l)).sum()
            }
            // tag x length x fill x context(3) + standalone
            Fam::Grid => 256 * GRID_LENS.len() as u64 * 3 * 4,
            Fam::WithLang => (LANG_LENS.len() * LANG_LENS.len() * 9 * 2 * 2) as u64,
            Fam::Tokens => tok_space(self.tier.pick(5, 6)),
            Fam::Mutations => *self.mut_offsets.last().unwrap(),
            Fam::Splices => {
                if self.tier == Tier::Thorough {
                    *self.splice_offsets.last().unwrap()
                } else {
                    0
                }
            }
            Fam::Bombs => bombs().len() as u64,
            Fam::Deep => 21 * 420 * 21 + 8000 * 21,
            Fam::DeepConfirm => 0,
        }
    }

    fn case(&self, f: Fam, idx: u64) -> (Input, String) {
        match f {
            Fam::Bytes => {
                let mut len = 0u32;
                let mut i = idx;
                loop {
                    let n = 256u64.pow(len);
                    if i < n {
                        break;
                    }
                    i -= n;
                    len += 1;
                }
                let mut b = TOK_HEADER.to_vec();
                for k in (0..len).rev() {
                    b.push((i >> (8 * k)) as u8);
                }
                (Input::Message(b), format!("header + {} byte(s)", len))
            }
            Fam::Grid => {
                let t = vmc::explore::unrank(idx, &[256, GRID_LENS.len() as u64, 3, 4]);
                let tag = t[0] as u8;
                let l = GRID_LENS[t[1] as usize];
                let declared = (l & 0xffff) as u16;
                // 0xffff = declared 65535 with a short body; 0x1ffff = declared 65535 with a full body
                let body_len = match l {
                    0xffff => 3,
                    0x1ffff => 65535,
                    x => x as usize,
                };
                let fill = |i: usize| match t[2] {
                    0 => 0x00u8,
                    1 => 0xff,
                    _ => (i as u8).wrapping_add(1),
                };
                let body: Vec<u8> = (0..body_len).map(fill).collect();
                let value = |name: &[u8]| {
                    let mut v = vec![tag];
                    v.extend_from_slice(&(name.len() as u16).to_be_bytes());
                    v.extend_from_slice(name);
                    v.extend_from_slice(&declared.to_be_bytes());
                    v.extend_from_slice(&body);
                    v
                };
                let what = format!("tag {:#04x} declared length {} body {} fill {} context {}", tag, declared, body_len, t[2], t[3]);
                match t[3] {
                    0 => {
                        let mut b = TOK_HEADER.to_vec();
                        b.push(1);
                        b.extend(value(b"v"));
                        b.push(3);
                        (Input::Message(b), what)
                    }
                    1 => {
                        let mut b = TOK_HEADER.to_vec();
                        b.push(4);
                        b.extend_from_slice(tok_bytes(5));
                        b.extend(value(b""));
                        b.push(3);
                        (Input::Message(b), what)
                    }
                    2 => {
                        let mut b = TOK_HEADER.to_vec();
                        b.push(2);
                        b.extend_from_slice(tok_bytes(9));
                        b.extend_from_slice(tok_bytes(11));
                        b.extend(value(b""));
                        b.extend_from_slice(tok_bytes(13));
                        b.push(3);
                        (Input::Message(b), what)
                    }
                    _ => (Input::Value(tag, body), what),
                }
            }
            Fam::WithLang => {
                let t = vmc::explore::unrank(idx, &[LANG_LENS.len() as u64, LANG_LENS.len() as u64, 9, 2, 2]);
                let ll = LANG_LENS[t[0] as usize];
                let tl = LANG_LENS[t[1] as usize];
                let extra = t[2] as usize;
                let tag = if t[3] == 0 { 0x35u8 } else { 0x36 };
                // body: lang-length, min(ll, extra) octets, text-length, the rest
                let mut body = ll.to_be_bytes().to_vec();
                let l_oct = (ll as usize).min(extra);
                body.extend(std::iter::repeat(b'l').take(l_oct));
                if extra > l_oct || ll as usize <= extra {
                    body.extend_from_slice(&tl.to_be_bytes());
                    body.extend(std::iter::repeat(b't').take(extra - l_oct));
                }
                let what = format!("tag {:#04x} language-length {} text-length {} with {} body octets", tag, ll, tl, body.len());
                if t[4] == 1 {
                    (Input::Value(tag, body), what)
                } else {
                    let mut b = TOK_HEADER.to_vec();
                    b.push(1);
                    b.push(tag);
                    b.extend_from_slice(&[0, 1, b'v']);
                    b.extend_from_slice(&(body.len() as u16).to_be_bytes());
                    b.extend_from_slice(&body);
                    b.push(3);
                    (Input::Message(b), what)
                }
            }
            Fam::Tokens => {
                let seq = tok_seq(idx);
                (Input::Message(tok_msg(&seq)), format!("tokens [{}]", tok_names(&seq)))
            }
            Fam::Mutations => {
                let ci = self.mut_offsets.partition_point(|o| *o <= idx) - 1;
                let local = idx - self.mut_offsets[ci];
                let mut k = 0u64;
                let mut found: Option<(String, Vec<u8>)> = None;
                mutations(&self.corpus[ci].1, &tag_bytes_all(), |kind, m| {
                    if k == local {
                        found = Some((kind.to_string(), m));
                    }
                    k += 1;
                });
                let (kind, m) = found.expect("mutation index");
                (Input::Message(m), format!("{} mutation #{} of {}", kind, local, self.corpus[ci].0))
            }
            Fam::Splices => {
                let pi = self.splice_offsets.partition_point(|o| *o <= idx) - 1;
                let local = idx - self.splice_offsets[pi];
                let n = self.splice_msgs.len();
                let (a, b) = (&self.splice_msgs[pi / n], &self.splice_msgs[pi % n]);
                let mut k = 0u64;
                let mut found = None;
                splices(a, b, |m| {
                    if k == local {
                        found = Some(m);
                    }
                    k += 1;
                });
                (Input::Message(found.expect("splice index")), format!("splice #{} of corpus messages {} and {}", local, pi / n, pi % n))
            }
            Fam::Bombs => {
                let (name, b) = bombs().swap_remove(idx as usize);
                (Input::Message(b), name)
            }
            Fam::Deep | Fam::DeepConfirm => {
                let ps = tok_words_ext(0, 1);
                let fam_ = if idx < 21 * 420 * 21 {
                    let t = vmc::explore::unrank(idx, &[21, 420, 21]);
                    let us = tok_words_ext(1, 2);
                    Periodic { p: ps[t[0] as usize].clone(), u: us[t[1] as usize].clone(), v: ps[t[2] as usize].clone(), s: vec![] }
                } else {
                    // three-token units (e.g. member name, begin collection, group delimiter), no prefix
                    let t = vmc::explore::unrank(idx - 21 * 420 * 21, &[8000, 21]);
                    let u3 = {
                        let mut x = t[0];
                        let mut w = vec![0usize; 3];
                        for i in (0..3).rev() {
                            w[i] = (x % 20) as usize;
                            x /= 20;
                        }
                        w
                    };
                    Periodic { p: vec![], u: u3, v: ps[t[1] as usize].clone(), s: vec![] }
                };
                let unit = fam_.bytes(1).len() - 8;
                let n = if f == Fam::Deep { 400 } else { ((1usize << 20) / unit.max(1)).min(60_000) };
                let mut b = fam_.bytes(n);
                b.push(3);
                let what = format!("periodic family {} at n={} ({} bytes)", fam_.name(), n, b.len());
                if f == Fam::Deep {
                    (Input::Screen(b), what)
                } else {
                    (Input::Message(b), what)
                }
            }
        }
    }
}

/// structural bombs: doubling sizes up to 1 MiB of input
fn bombs() -> Vec<(String, Vec<u8>)> {
    let mut out = vec![];
    let mut n = 1024usize;
    while n <= (1 << 20) {
        let unit = |tok: &[usize]| tok.iter().map(|t| tok_bytes(*t).len()).sum::<usize>();
        let rep = |name: &str, pre: &[usize], u: &[usize], v: &[usize], close: bool, out: &mut Vec<(String, Vec<u8>)>| {
            let per = unit(u) + unit(v);
            let k = (n / per.max(1)).max(1);
            let mut b = TOK_HEADER.to_vec();
            for t in pre {
                b.extend_from_slice(tok_bytes(*t));
            }
            for _ in 0..k {
                for t in u {
                    b.extend_from_slice(tok_bytes(*t));
                }
            }
            for _ in 0..k {
                for t in v {
                    b.extend_from_slice(tok_bytes(*t));
                }
            }
            if close {
                b.push(3);
            }
            out.push((format!("{} x{} (~{} KiB)", name, k, n / 1024), b));
        };
        rep("nested collections, closed", &[0, 9], &[10], &[13], true, &mut out);
        rep("nested collections with member names, closed", &[0, 9], &[11, 10], &[13], true, &mut out);
        rep("nested collections, unclosed, end tag", &[0, 9], &[10], &[], true, &mut out);
        rep("nested collections, unclosed, truncated", &[0, 9], &[10], &[], false, &mut out);
        rep("named nested collections", &[0], &[9], &[13], true, &mut out);
        rep("wide set", &[0, 5], &[7], &[], true, &mut out);
        rep("wide mixed set of collections", &[0, 9, 13], &[10, 13, 8], &[], true, &mut out);
        rep("many attributes, identical names", &[0], &[5], &[], true, &mut out);
        rep("many groups", &[], &[0, 1, 2, 3], &[], true, &mut out);
        rep("many members", &[0, 9], &[11, 7], &[13], true, &mut out);
        rep("end-collections only", &[0], &[13], &[], true, &mut out);
        // distinct names
        let mut b = TOK_HEADER.to_vec();
        b.push(1);
        let mut i = 0;
        while b.len() < n {
            let name = format!("n{}", i);
            b.push(0x21);
            b.extend_from_slice(&(name.len() as u16).to_be_bytes());
            b.extend_from_slice(name.as_bytes());
            b.extend_from_slice(&[0, 4, 0, 0, 0, 1]);
            i += 1;
        }
        b.push(3);
        out.push((format!("many attributes, distinct names x{} (~{} KiB)", i, n / 1024), b));
        // maximal values back to back
        let mut b = TOK_HEADER.to_vec();
        b.push(1);
        while b.len() + 65545 <= n.max(70_000) {
            b.extend_from_slice(&[0x41, 0, 1, b't', 0xff, 0xff]);
            b.extend(std::iter::repeat(0xc3).take(65535));
        }
        b.push(3);
        out.push((format!("maximal invalid-UTF-8 text values (~{} KiB)", b.len() / 1024), b));
        n *= 2;
    }
    // collections nested d deep where EVERY level's member also has a sibling value (c = {m = [{m = [{...}, 2]}, 2]}),
    // properly closed: anything that handles a set by visiting each element more than once multiplies per level
    for d in [4usize, 10, 20, 127] {
        let mut b = TOK_HEADER.to_vec();
        b.extend_from_slice(tok_bytes(0));
        b.extend_from_slice(tok_bytes(9));
        for _ in 0..d {
            b.extend_from_slice(tok_bytes(11));
            b.extend_from_slice(tok_bytes(10));
        }
        for _ in 0..d {
            b.extend_from_slice(tok_bytes(13));
            b.extend_from_slice(tok_bytes(7));
        }
        b.extend_from_slice(tok_bytes(13));
        b.push(3);
        out.push((format!("collections nested {} deep, a sibling value at every level", d), b));
        // the same with the sibling BEFORE the nested collection (m = [2, {...}])
        let mut b = TOK_HEADER.to_vec();
        b.extend_from_slice(tok_bytes(0));
        b.extend_from_slice(tok_bytes(9));
        for _ in 0..d {
            b.extend_from_slice(tok_bytes(11));
            b.extend_from_slice(tok_bytes(7));
            b.extend_from_slice(tok_bytes(10));
        }
        for _ in 0..d {
            b.extend_from_slice(tok_bytes(13));
        }
        b.extend_from_slice(tok_bytes(13));
        b.push(3);
        out.push((format!("collections nested {} deep, a sibling value before every level", d), b));
    }
    out
}

// ------------------------------------------------------------------ one case

fn use_value(v: &IppValue, sink: &mut u64) {
    let s = format!("{}", v);
    *sink += s.len() as u64;
    *sink += v.to_tag() as u64;
    *sink += v.to_bytes().len() as u64;
    for x in v.into_iter().take(1_000_000) {
        *sink += x.to_tag() as u64;
    }
    let c = v.clone();
    *sink += (c == *v) as u64;
    drop(c);
}

/// exercise a parsed result the way a user would: display, re-encode, traverse, clone, drop
fn use_result(header: &IppHeader, attrs: IppAttributes) -> u64 {
    let mut sink = header.to_bytes().len() as u64;
    let _ = header.status_code();
    for g in attrs.groups() {
        for (k, a) in g.attributes() {
            sink += k.len() as u64;
            use_value(a.value(), &mut sink);
            sink += a.to_bytes().len() as u64;
        }
    }
    sink += attrs.to_bytes().len() as u64;
    let c = attrs.clone();
    sink += c.groups().len() as u64;
    for g in c.into_groups() {
        for (_, a) in g.into_attributes() {
            let v = a.into_value();
            drop(v);
        }
    }
    drop(attrs);
    sink
}

/// nesting depth of a value, measured with an explicit stack (no recursion)
fn depth_of(v: &IppValue) -> usize {
    let mut max = 0;
    let mut stack: Vec<(&IppValue, usize)> = vec![(v, 0)];
    while let Some((x, d)) = stack.pop() {
        max = max.max(d);
        match x {
            IppValue::Array(items) => items.iter().for_each(|i| stack.push((i, d + 1))),
            IppValue::Collection(m) => m.values().for_each(|i| stack.push((i, d + 1))),
            _ => {}
        }
    }
    max
}

const SCREEN_DEPTH: usize = 300;

fn run_input(input: &Input) -> Result<&'static str, String> {
    match input {
        Input::Screen(b) => {
            let data = b.clone();
            std::panic::catch_unwind(move || {
                let p = ipp::parser::IppParser::new(ipp::reader::IppReader::new(std::io::Cursor::new(data)));
                match p.parse_parts() {
                    Ok((h, a, _)) => {
                        let deep = a.groups().iter().flat_map(|g| g.attributes().values()).map(|x| depth_of(x.value())).max().unwrap_or(0);
                        if deep > SCREEN_DEPTH {
                            // dropping it could overflow the stack right here: leak it, the confirm run decides
                            std::mem::forget(a);
                            "deep"
                        } else {
                            let _ = use_result(&h, a);
                            "ok"
                        }
                    }
                    Err(_) => "err",
                }
            })
            .map_err(|p| format!("IppParser: {}", panic_text(p)))
        }
        Input::Value(tag, body) => {
            let r = std::panic::catch_unwind(|| match IppValue::parse(*tag, bytes::Bytes::from(body.clone())) {
                Ok(v) => {
                    let mut sink = 0;
                    use_value(&v, &mut sink);
                    drop(v);
                    "ok"
                }
                Err(_) => "err",
            });
            r.map_err(|p| format!("IppValue::parse: {}", panic_text(p)))
        }
        Input::Message(b) => {
            let data = b.clone();
            let r1 = std::panic::catch_unwind(move || {
                let p = ipp::parser::IppParser::new(ipp::reader::IppReader::new(std::io::Cursor::new(data)));
                match p.parse() {
                    Ok(resp) => {
                        let h = resp.header().clone();
                        let a = resp.attributes().clone();
                        let rest = read_all(resp.into_payload()).map(|p| p.len()).unwrap_or(0);
                        let _ = use_result(&h, a) + rest as u64;
                        "ok"
                    }
                    Err(e) => {
                        let _ = format!("{}", e);
                        "err"
                    }
                }
            })
            .map_err(|p| format!("IppParser: {}", panic_text(p)))?;
            let data = b.clone();
            let r2 = std::panic::catch_unwind(move || {
                let p = ipp::parser::AsyncIppParser::new(ipp::reader::AsyncIppReader::new(futures_util::io::Cursor::new(data)));
                match futures_executor::block_on(p.parse_parts()) {
                    Ok((h, a, _)) => {
                        let _ = use_result(&h, a);
                        "ok"
                    }
                    Err(_) => "err",
                }
            })
            .map_err(|p| format!("AsyncIppParser: {}", panic_text(p)))?;
            if r1 != r2 {
                // not a C02 matter (C05 owns equivalence) but worth counting
                return Ok("ok-err-split");
            }
            Ok(r1)
        }
    }
}

fn input_json(i: &Input) -> Json {
    match i {
        Input::Message(b) if b.len() <= 4096 => json!({"message": hex(b)}),
        Input::Message(b) => json!({"message_len": b.len(), "head": hex(&b[..64]), "fnv": format!("{:016x}", fnv(b))}),
        Input::Value(t, b) if b.len() <= 4096 => json!({"value_tag": t, "body": hex(b)}),
        Input::Value(t, b) => json!({"value_tag": t, "body_len": b.len()}),
        Input::Screen(b) => json!({"message_len": b.len(), "head": hex(&b[..b.len().min(96)])}),
    }
}

// ------------------------------------------------------------------ worker

fn panic_class(msg: &str) -> String {
    let m: String = msg.chars().map(|c| if c.is_ascii_digit() { '#' } else { c }).collect();
    let m = m.replace("##", "#").replace("##", "#").replace("##", "#");
    format!("panic:{}", &m[..m.len().min(60)])
}

fn worker(ctx: &Ctx) -> ! {
    // args: --worker <family> <lo> <hi> <stride> <offset> <hbfile> [--slow]
    let a = &ctx.extra;
    let fam = fam_by_name(&a[1]);
    let lo: u64 = a[2].parse().unwrap();
    let hi: u64 = a[3].parse().unwrap();
    let stride: u64 = a[4].parse().unwrap();
    let offset: u64 = a[5].parse().unwrap();
    let hb = std::fs::OpenOptions::new().write(true).create(true).open(&a[6]).expect("heartbeat file");
    let slow = a.get(7).map(|s| s == "--slow").unwrap_or(false);
    let tier = ctx.tier;
    let h = std::thread::Builder::new()
        .stack_size(WORKER_STACK)
        .spawn(move || {
            let space = Space::new(tier);
            let mut st = Stats::new();
            let mut blk = lo / BLOCK;
            while blk * BLOCK < hi {
                if blk % stride == offset {
                    let b_lo = (blk * BLOCK).max(lo);
                    let b_hi = ((blk + 1) * BLOCK).min(hi);
                    if !slow {
                        let _ = hb.write_at(&b_lo.to_le_bytes(), 0);
                    }
                    for idx in b_lo..b_hi {
                        if slow {
                            let _ = hb.write_at(&idx.to_le_bytes(), 0);
                        }
                        let (input, what) = space.case(fam, idx);
                        st.evaluations += 1;
                        st.traces += 1;
                        if let Input::Message(b) = &input {
                            st.transitions += b.len() as u64;
                        }
                        match run_input(&input) {
                            Ok("deep") => {
                                st.outcome("deep");
                                st.violate(format!("deep-candidate:{}", idx), format!("{}: parsed to a value nested deeper than {} levels", what, SCREEN_DEPTH), json!({"family": fam_name(fam), "index": idx}));
                            }
                            Ok(o) => {
                                st.outcome(o);
                                if o == "ok" {
                                    st.nontrivial.insert(idx ^ ((fam as u64) << 56));
                                }
                            }
                            Err(p) => {
                                st.outcome("panic");
                                st.violate(panic_class(&p), format!("{} [{} #{}]: {}", what, fam_name(fam), idx, p), json!({"family": fam_name(fam), "index": idx, "input": input_json(&input)}));
                            }
                        }
                        st.sample(1, || json!({"family": fam_name(fam), "index": idx, "what": what, "input": input_json(&input)}));
                    }
                }
                blk += 1;
            }
            st
        })
        .unwrap();
    let st = match h.join() {
        Ok(s) => s,
        Err(_) => std::process::exit(3),
    };
    let out = json!({
        "evaluations": st.evaluations, "traces": st.traces, "transitions": st.transitions,
        "nontrivial": st.nontrivial.len(), "outcomes": st.outcomes, "samples": st.samples,
        "violations": st.violations.iter().map(|v| json!({"class": v.class, "detail": v.detail, "case": v.case})).collect::<Vec<_>>(),
    });
    let mut so = std::io::stdout();
    let _ = writeln!(so, "WORKER-REPORT {}", out);
    let _ = so.flush();
    std::process::exit(0)
}

// ------------------------------------------------------------------ parent

struct Child {
    child: std::process::Child,
    hb: std::path::PathBuf,
    last_hb: u64,
    last_change: Instant,
    offset: u64,
}

enum WorkerEnd {
    Report(Json),
    Died { signal: Option<i32>, code: Option<i32>, at: u64, stalled: bool },
}

fn read_hb(p: &std::path::Path) -> u64 {
    std::fs::read(p).ok().filter(|b| b.len() >= 8).map(|b| u64::from_le_bytes([b[0], b[1], b[2], b[3], b[4], b[5], b[6], b[7]])).unwrap_or(u64::MAX)
}

fn spawn_worker(ctx: &Ctx, fam: Fam, lo: u64, hi: u64, stride: u64, offset: u64, slow: bool, tag: &str) -> Child {
    let hb = ctx.verif_dir.join("target").join(format!("c02-hb-{}-{}-{}", std::process::id(), tag, offset));
    let _ = std::fs::remove_file(&hb);
    let mut cmd = Command::new(std::env::current_exe().unwrap());
    cmd.arg("C02").arg("--tier").arg(ctx.tier.name()).arg("--worker").arg(fam_name(fam)).arg(lo.to_string()).arg(hi.to_string()).arg(stride.to_string()).arg(offset.to_string()).arg(&hb);
    if slow {
        cmd.arg("--slow");
    }
    let child = cmd.stdout(Stdio::piped()).stderr(Stdio::null()).spawn().unwrap_or_else(|e| {
        eprintln!("MACHINERY-ERROR cannot start worker: {}", e);
        std::process::exit(2)
    });
    Child {
        child,
        hb,
        last_hb: u64::MAX,
        last_change: Instant::now(),
        offset,
    }
}

fn wait_worker(mut c: Child, stall: Duration) -> WorkerEnd {
    // stdout is read by a helper thread so a chatty worker never blocks on a full pipe
    let mut so = c.child.stdout.take().unwrap();
    let reader = std::thread::spawn(move || {
        let mut s = String::new();
        let _ = std::io::Read::read_to_string(&mut so, &mut s);
        s
    });
    loop {
        match c.child.try_wait() {
            Ok(Some(status)) => {
                let text = reader.join().unwrap_or_default();
                let at = read_hb(&c.hb);
                let _ = std::fs::remove_file(&c.hb);
                if status.success() {
                    if let Some(line) = text.lines().find(|l| l.starts_with("WORKER-REPORT ")) {
                        if let Ok(j) = serde_json::from_str::<Json>(&line["WORKER-REPORT ".len()..]) {
                            return WorkerEnd::Report(j);
                        }
                    }
                    eprintln!("MACHINERY-ERROR worker exited 0 without a report");
                    std::process::exit(2);
                }
                return WorkerEnd::Died {
                    signal: status.signal(),
                    code: status.code(),
                    at,
                    stalled: false,
                };
            }
            Ok(None) => {
                let h = read_hb(&c.hb);
                if h != c.last_hb {
                    c.last_hb = h;
                    c.last_change = Instant::now();
                } else if c.last_change.elapsed() > stall {
                    let _ = c.child.kill();
                    let _ = c.child.wait();
                    let _ = reader.join();
                    let _ = std::fs::remove_file(&c.hb);
                    return WorkerEnd::Died {
                        signal: None,
                        code: None,
                        at: h,
                        stalled: true,
                    };
                }
                std::thread::sleep(Duration::from_millis(5));
            }
            Err(e) => {
                eprintln!("MACHINERY-ERROR wait: {}", e);
                std::process::exit(2);
            }
        }
    }
}

fn absorb_report(st: &mut Stats, j: &Json) {
    st.evaluations += j["evaluations"].as_u64().unwrap_or(0);
    st.traces += j["traces"].as_u64().unwrap_or(0);
    st.transitions += j["transitions"].as_u64().unwrap_or(0);
    st.nontrivial_extra += j["nontrivial"].as_u64().unwrap_or(0);
    st.states_extra += j["evaluations"].as_u64().unwrap_or(0);
    if let Some(o) = j["outcomes"].as_object() {
        for (k, v) in o {
            *st.outcomes.entry(k.clone()).or_insert(0) += v.as_u64().unwrap_or(0);
        }
    }
    if let Some(s) = j["samples"].as_array() {
        for x in s {
            if st.samples.len() < 2 {
                st.samples.push(x.clone());
            }
        }
    }
    if let Some(vs) = j["violations"].as_array() {
        for v in vs {
            st.violate(v["class"].as_str().unwrap_or("panic"), v["detail"].as_str().unwrap_or(""), v["case"].clone());
        }
    }
}

/// a worker died in `[lo, hi)` at block `at`: find the single case and confirm it alone
fn narrow(ctx: &Ctx, fam: Fam, stride: u64, offset: u64, at: u64, hi: u64, stalled: bool, st: &mut Stats) {
    if at == u64::MAX {
        eprintln!("MACHINERY-ERROR worker died before its first heartbeat");
        std::process::exit(2);
    }
    let b_hi = (at / BLOCK * BLOCK + BLOCK).min(hi);
    // per-case heartbeat over the block
    let c = spawn_worker(ctx, fam, at, b_hi, 1, 0, true, "slow");
    let end = wait_worker(c, Duration::from_secs(25));
    let idx = match end {
        WorkerEnd::Report(j) => {
            // did not reproduce in the slow pass: machinery problem, never a verdict
            let mut tmp = Stats::new();
            absorb_report(&mut tmp, &j);
            eprintln!("MACHINERY-ERROR worker for {} (stride {} offset {}) {} in block {} but the block passes when re-run", fam_name(fam), stride, offset, if stalled { "stalled" } else { "died" }, at);
            std::process::exit(2);
        }
        WorkerEnd::Died { at, .. } => at,
    };
    // confirm: that single case alone, fresh process
    let c = spawn_worker(ctx, fam, idx, idx + 1, 1, 0, true, "one");
    match wait_worker(c, Duration::from_secs(25)) {
        WorkerEnd::Report(_) => {
            eprintln!("MACHINERY-ERROR case {} #{} failed inside its block but passes alone", fam_name(fam), idx);
            std::process::exit(2);
        }
        WorkerEnd::Died { signal, code, stalled, .. } => {
            let space = Space::new(ctx.tier);
            let (input, what) = space.case(fam, idx);
            let how = if stalled {
                "hang (no progress for 25 s)".to_string()
            } else if let Some(s) = signal {
                format!("process killed by signal {}", s)
            } else {
                format!("process exited with status {:?}", code)
            };
            st.evaluations += 1;
            st.outcome(if stalled { "hang" } else { "abort" });
            st.violate(
                if stalled { "hang".to_string() } else { format!("abort:signal-{}", signal.unwrap_or(0)) },
                format!("{} [{} #{}]: {} (reproduced alone in a fresh process, {} KiB worker stack)", what, fam_name(fam), idx, how, WORKER_STACK / 1024),
                json!({"family": fam_name(fam), "index": idx, "input": input_json(&input)}),
            );
        }
    }
}

pub fn run(ctx: &Ctx) -> ! {
    if ctx.extra.first().map(|s| s.as_str()) == Some("--worker") {
        silence_panics();
        worker(ctx);
    }
    let mut rep = Report::new(
        ctx,
        "exploration",
        "(a) every byte string of <= 2 (3) bytes after a valid header; (b) value tag 0x00-0xff x value length {0..16, 0xffff short body, 0xffff full body} x fill {00, ff, counting} in three contexts (named attribute, additional value, collection member) and through the stand-alone IppValue::parse; (c) every (language-length, text-length) pair of {0..6, 0xfffe, 0xffff}^2 against bodies of 0..8 octets for both with-language tags; (d) every sequence of <= 5 (6) tokens of the 16-token wire alphabet; (e) grammar-aware mutations of every corpus message (every length field <- 0 / -1 / +1 / 0xffff / 0x8000, truncation at every offset, deletion and duplication of every token, every tag byte <- every byte), thorough: + every token-boundary splice of the short corpus messages; (f) structural bombs doubling up to 1 MiB (nesting with/without member names, closed/unclosed/truncated, set width, attribute count, group count, member count, maximal values; collections nested 4, 10, 20 and 127 deep with a sibling value at every level); (g) EVERY periodic family p.u^n.v^n over the EXTENDED 20-token alphabet (named and unnamed variant of every token class; |p| <= 1, |u| <= 2, |v| <= 1: 185 220 families; plus |u| = 3 without prefix: 168 000) at n = 400, screened for results nested deeper than 300 levels (iterative measure), every candidate re-run at ~1 MiB in a process of its own. Every input through IppParser and AsyncIppParser; every Ok result is displayed, re-encoded, traversed, cloned and dropped. All in worker PROCESSES (2 MiB thread stack): panic (caught), death by signal and stalled heartbeat are violations, confirmed by re-running the single case alone. distinct = case index per family; non-trivial = the parser returned Ok and the result was exercised",
    );
    rep.assume("worker threads use a 2 MiB stack (Rust's default for spawned threads): deeper recursion than that is an abort a user would see");
    let space = Space::new(ctx.tier);

    if let Some(p) = &ctx.replay {
        let (_, j) = vmc::report::load_replay(p);
        let fam = fam_by_name(j["family"].as_str().unwrap_or(""));
        let idx = j["index"].as_u64().unwrap_or(0);
        let mut st = Stats::new();
        st.evaluations = 1;
        let c = spawn_worker(ctx, fam, idx, idx + 1, 1, 0, true, "replay");
        match wait_worker(c, Duration::from_secs(25)) {
            WorkerEnd::Report(r) => {
                absorb_report(&mut st, &r);
                st.evaluations = 1;
            }
            WorkerEnd::Died { signal, code, stalled, .. } => {
                let d = format!("worker {} (signal {:?}, code {:?})", if stalled { "stalled" } else { "died" }, signal, code);
                st.violate("abort", d, j.clone());
            }
        }
        for v in &st.violations {
            println!("replay: class={} detail={}", v.class, v.detail);
        }
        // also allow replaying raw bytes
        if let Some(m) = j["input"]["message"].as_str() {
            println!("replay: in-process outcome {:?}", run_input(&Input::Message(unhex(m))));
        }
        rep.absorb(st);
        rep.finish();
    }

    let nworkers = ctx.threads.max(1) as u64;
    for (fam, name) in FAMS {
        let total = space.size(fam);
        if total == 0 {
            continue;
        }
        let mut st = Stats::new();
        let stall = if fam == Fam::Bombs { Duration::from_secs(40) } else { Duration::from_secs(30) };
        if fam == Fam::Bombs {
            // one process per bomb, `nworkers` at a time
            let mut next = 0u64;
            let mut running: Vec<(u64, Child)> = vec![];
            let mut done = 0;
            while done < total {
                while running.len() < nworkers as usize && next < total {
                    running.push((next, spawn_worker(ctx, fam, next, next + 1, 1, 0, true, &format!("bomb{}", next))));
                    next += 1;
                }
                let (idx, c) = running.remove(0);
                match wait_worker(c, stall) {
                    WorkerEnd::Report(j) => absorb_report(&mut st, &j),
                    WorkerEnd::Died { .. } => {
                        // confirm alone
                        let c = spawn_worker(ctx, fam, idx, idx + 1, 1, 0, true, "one");
                        match wait_worker(c, stall) {
                            WorkerEnd::Report(_) => {
                                eprintln!("MACHINERY-ERROR bomb #{} died once but passes alone", idx);
                                std::process::exit(2);
                            }
                            WorkerEnd::Died { signal, code, stalled, .. } => {
                                let (input, what) = space.case(fam, idx);
                                let how = if stalled { "hang".to_string() } else if let Some(s) = signal { format!("killed by signal {}", s) } else { format!("exit status {:?}", code) };
                                st.evaluations += 1;
                                st.outcome(if stalled { "hang" } else { "abort" });
                                let kind = what.split(" x").next().unwrap_or("bomb").to_string();
                                st.violate(
                                    format!("{}:{}", if stalled { "hang" } else { "abort" }, kind),
                                    format!("{}: {} (reproduced alone, {} KiB worker stack)", what, how, WORKER_STACK / 1024),
                                    json!({"family": name, "index": idx, "input": input_json(&input)}),
                                );
                            }
                        }
                    }
                }
                done += 1;
            }
        } else {
            let k = nworkers.min((total + BLOCK - 1) / BLOCK).max(1);
            let children: Vec<Child> = (0..k).map(|o| spawn_worker(ctx, fam, 0, total, k, o, false, name)).collect();
            for c in children {
                let offset = c.offset;
                match wait_worker(c, stall) {
                    WorkerEnd::Report(j) => absorb_report(&mut st, &j),
                    WorkerEnd::Died { at, stalled, .. } => narrow(ctx, fam, k, offset, at, total, stalled, &mut st),
                }
            }
            if fam == Fam::Deep {
                // candidates are not verdicts: confirm each at ~1 MiB in a process of its own
                let cands: Vec<u64> = st.violations.iter().filter(|v| v.class.starts_with("deep-candidate:")).filter_map(|v| v.case["index"].as_u64()).collect();
                st.violations.retain(|v| !v.class.starts_with("deep-candidate:"));
                st.counters.remove("violations_total");
                st.count("deep_candidates", cands.len() as u64);
                for idx in cands.into_iter().take(32) {
                    let c = spawn_worker(ctx, Fam::DeepConfirm, idx, idx + 1, 1, 0, true, "deepconfirm");
                    match wait_worker(c, Duration::from_secs(40)) {
                        WorkerEnd::Report(j) => {
                            let mut tmp = Stats::new();
                            absorb_report(&mut tmp, &j);
                            st.count("deep_but_no_abort_at_1MiB", 1);
                            for v in tmp.violations {
                                st.violate(v.class, v.detail, v.case);
                            }
                        }
                        WorkerEnd::Died { signal, code, stalled, .. } => {
                            let (input, what) = space.case(Fam::DeepConfirm, idx);
                            let how = if stalled { "hang".to_string() } else if let Some(sg) = signal { format!("killed by signal {}", sg) } else { format!("exit status {:?}", code) };
                            st.outcome(if stalled { "hang" } else { "abort" });
                            st.violate(
                                if stalled { "hang:unbounded-nesting".to_string() } else { "abort:unbounded-nesting".to_string() },
                                format!("{}: {} when the parsed result is displayed / cloned / dropped ({} KiB worker stack)", what, how, WORKER_STACK / 1024),
                                json!({"family": fam_name(Fam::DeepConfirm), "index": idx, "input": input_json(&input)}),
                            );
                        }
                    }
                }
            }
            if st.evaluations < total && st.violations.is_empty() {
                eprintln!("MACHINERY-ERROR family {}: {} of {} cases accounted for", name, st.evaluations, total);
                std::process::exit(2);
            }
        }
        rep.section(name, st);
    }
    rep.finish()
}
