//! C17 — printer readiness helper vs the readiness spec R5 (exhaustive product).

use crate::adapter::*;
use ipp::prelude::*;
use vmc::explore::par_range;
use vmc::r1::{self, Attr, Group, Msg, Val, T_KEYWORD, T_NAME};
use vmc::registry as reg;
use vmc::report::{Ctx, Report, Stats, Tier};
use vmc::{fnv, hex, json};

const BLOCKING: [&str; 10] = [
    "media-jam",
    "toner-empty",
    "spool-area-full",
    "cover-open",
    "door-open",
    "input-tray-missing",
    "output-tray-missing",
    "marker-supply-empty",
    "paused",
    "shutdown",
];
// none of these contains a blocking keyword as a substring
const INFO: [&str; 6] = ["none", "media-low", "toner-low", "marker-supply-low", "media-needed", "connecting-to-device"];

fn vocab(i: usize) -> &'static str {
    if i < 10 {
        BLOCKING[i]
    } else {
        INFO[i - 10]
    }
}

#[derive(Clone, Debug)]
enum Reasons {
    Absent,
    /// ordered tuple of keywords (indices into the 16-word vocabulary)
    Tuple(Vec<usize>),
    /// fixed non-keyword shapes
    Odd(usize),
}

const N_ODD: usize = 5;

fn odd_values(i: usize) -> Vec<Val> {
    let k = |s: &str| Val::Str(T_KEYWORD, s.as_bytes().to_vec());
    match i {
        0 => vec![Val::Int(5)],
        1 => vec![k("none"), Val::Int(3)],
        2 => vec![Val::Str(T_NAME, b"media-jam".to_vec()), k("none")],
        3 => vec![Val::Int(1), k("paused")],
        _ => vec![Val::NoValue, k("media-low"), k("door-open")],
    }
}

impl Reasons {
    fn values(&self) -> Option<Vec<Val>> {
        match self {
            Reasons::Absent => None,
            Reasons::Tuple(t) => Some(t.iter().map(|&i| Val::Str(T_KEYWORD, vocab(i).as_bytes().to_vec())).collect()),
            Reasons::Odd(i) => Some(odd_values(*i)),
        }
    }
}

const STATES: usize = 9;
fn state_value(i: usize) -> Option<Val> {
    match i {
        0 => None,
        1 => Some(Val::Enum(3)),
        2 => Some(Val::Enum(4)),
        3 => Some(Val::Enum(5)),
        4 => Some(Val::Enum(6)),
        5 => Some(Val::Enum(0)),
        6 => Some(Val::Enum(-1)),
        7 => Some(Val::Int(5)),
        _ => Some(Val::Str(T_KEYWORD, b"stopped".to_vec())),
    }
}

#[derive(Clone, Debug)]
struct Case {
    status: u16,
    state: usize,
    reasons: Reasons,
    /// 0 in memory (scalar / set as given), 1 in memory, single keyword wrapped in a 1-element set, 2 wire bytes parsed
    shape: usize,
    /// 0 printer group only, 1 operation + job group around it, 2 unrelated attributes inside the printer group,
    /// 3 an unsupported-attributes group BEFORE the printer group holding harmless decoys named printer-state /
    ///   printer-state-reasons, 4 a job group before and an unsupported group after holding alarming decoys
    context: usize,
}

impl Case {
    fn to_json(&self) -> vmc::Json {
        json!({"status": self.status, "state": self.state, "reasons": format!("{:?}", self.reasons), "shape": self.shape, "context": self.context,
               "reasons_words": match &self.reasons { Reasons::Tuple(t) => t.iter().map(|&i| vocab(i)).collect::<Vec<_>>(), _ => vec![] }})
    }
    fn from_json(j: &vmc::Json) -> Option<Case> {
        let rs = j["reasons"].as_str()?;
        let reasons = if rs == "Absent" {
            Reasons::Absent
        } else if let Some(r) = rs.strip_prefix("Odd(") {
            Reasons::Odd(r.trim_end_matches(')').parse().ok()?)
        } else {
            let inner = rs.strip_prefix("Tuple([")?.trim_end_matches("])");
            Reasons::Tuple(inner.split(',').filter(|s| !s.trim().is_empty()).map(|s| s.trim().parse().unwrap_or(0)).collect())
        };
        Some(Case {
            status: j["status"].as_u64()? as u16,
            state: j["state"].as_u64()? as usize,
            reasons,
            shape: j["shape"].as_u64()? as usize,
            context: j["context"].as_u64()? as usize,
        })
    }

    fn model(&self) -> Msg {
        let at = |n: &str, v: Vec<Val>| Attr {
            name: n.as_bytes().to_vec(),
            values: v,
        };
        let mut m = Msg::new(0x0200, self.status, 7);
        let mut printer = Group {
            tag: r1::TAG_PRINTER,
            attrs: vec![],
        };
        if self.context == 2 {
            printer.attrs.push(at("printer-name", vec![Val::Str(T_NAME, b"stopped".to_vec())]));
            printer.attrs.push(at("printer-state-message", vec![Val::Str(r1::T_TEXT, b"media-jam".to_vec())]));
        }
        // contexts 5 and 6: the response holds TWO printer-attributes groups; the first one carries only the reasons
        // (5) or only the state (6), the other attribute sits in the second group
        let mut second = Group { tag: r1::TAG_PRINTER, attrs: vec![] };
        if let Some(s) = state_value(self.state) {
            if self.context == 5 {
                second.attrs.push(at("printer-state", vec![s]));
            } else {
                printer.attrs.push(at("printer-state", vec![s]));
            }
        }
        if let Some(r) = self.reasons.values() {
            if self.context == 6 {
                second.attrs.push(at("printer-state-reasons", r));
            } else {
                printer.attrs.push(at("printer-state-reasons", r));
            }
        }
        if self.context == 2 {
            printer.attrs.push(at("queued-job-count", vec![Val::Int(5)]));
        }
        if self.context == 1 {
            m.groups.push(Group {
                tag: r1::TAG_OPERATION,
                attrs: vec![at("attributes-charset", vec![Val::Str(r1::T_CHARSET, b"utf-8".to_vec())]), at("status-message", vec![Val::Str(r1::T_TEXT, b"paused".to_vec())])],
            });
        }
        if self.context == 3 {
            // RFC 8011 response group order: operation, unsupported, printer
            m.groups.push(Group {
                tag: r1::TAG_OPERATION,
                attrs: vec![at("attributes-charset", vec![Val::Str(r1::T_CHARSET, b"utf-8".to_vec())])],
            });
            m.groups.push(Group {
                tag: r1::TAG_UNSUPPORTED_GROUP,
                attrs: vec![at("printer-state", vec![Val::Enum(3)]), at("printer-state-reasons", vec![Val::Str(T_KEYWORD, b"none".to_vec())])],
            });
        }
        if self.context == 4 {
            m.groups.push(Group {
                tag: r1::TAG_JOB,
                attrs: vec![at("printer-state", vec![Val::Enum(5)]), at("printer-state-reasons", vec![Val::Str(T_KEYWORD, b"paused".to_vec())])],
            });
        }
        m.groups.push(printer);
        if self.context == 5 || self.context == 6 {
            second.attrs.push(at("printer-name", vec![Val::Str(T_NAME, b"second".to_vec())]));
            m.groups.push(second);
        }
        if self.context == 4 {
            m.groups.push(Group {
                tag: r1::TAG_UNSUPPORTED_GROUP,
                attrs: vec![at("printer-state", vec![Val::Enum(5)]), at("printer-state-reasons", vec![Val::Str(T_KEYWORD, b"media-jam".to_vec())])],
            });
        }
        if self.context == 1 {
            m.groups.push(Group {
                tag: r1::TAG_JOB,
                attrs: vec![at("job-state", vec![Val::Enum(5)]), at("job-state-reasons", vec![Val::Str(T_KEYWORD, b"job-printing".to_vec())])],
            });
        }
        m
    }

    fn build(&self) -> Result<IppRequestResponse, String> {
        let m = self.model();
        match self.shape {
            2 => {
                let bytes = r1::encode(&m);
                ipp::parser::IppParser::new(ipp::reader::IppReader::new(std::io::Cursor::new(bytes.clone())))
                    .parse()
                    .map_err(|e| format!("parser rejected the scripted response {}: {}", hex(&bytes), e))
            }
            shape => {
                let mut r = IppRequestResponse::new_response(IppVersion::v2_0(), StatusCode::SuccessfulOk, 7);
                r.header_mut().operation_or_status = self.status;
                r.attributes_mut().groups_mut().clear();
                for g in &m.groups {
                    for a in &g.attrs {
                        let mut v = to_ipp_value(&a.values);
                        if shape == 1 && a.values.len() == 1 && a.name == b"printer-state-reasons" {
                            v = IppValue::Array(vec![v]);
                        }
                        r.attributes_mut().add(group_tag(g.tag), IppAttribute::new(s(&a.name), v));
                    }
                }
                Ok(r)
            }
        }
    }
}

#[derive(Debug, PartialEq)]
enum Expect {
    ErrStatus,
    Either,
    Ready(bool),
    OkAny,
}

fn expect(c: &Case) -> Expect {
    if c.status >= 0x0100 {
        return Expect::ErrStatus;
    }
    if c.status > 2 {
        return Expect::Either;
    }
    let state = state_value(c.state);
    let stopped = state == Some(Val::Enum(5));
    let reasons = c.reasons.values();
    let blocking = reasons
        .as_ref()
        .map(|vs| vs.iter().any(|v| matches!(v, Val::Str(T_KEYWORD, w) if BLOCKING.iter().any(|b| b.as_bytes() == &w[..]))))
        .unwrap_or(false);
    if c.context == 5 {
        // only the reasons are in the first printer group: a blocking one must not be overlooked because some later
        // group carries a state; everything else about split groups is left open
        return if blocking { Expect::Ready(false) } else { Expect::OkAny };
    }
    if c.context == 6 {
        return if stopped { Expect::Ready(false) } else { Expect::OkAny };
    }
    if stopped || blocking {
        return Expect::Ready(false);
    }
    let harmless = match &reasons {
        None => true,
        Some(vs) => vs.iter().all(|v| matches!(v, Val::Str(T_KEYWORD, w) if INFO.iter().any(|b| b.as_bytes() == &w[..]))),
    };
    if matches!(state, Some(Val::Enum(3)) | Some(Val::Enum(4))) && harmless {
        return Expect::Ready(true);
    }
    Expect::OkAny
}

fn run_case(c: &Case, st: &mut Stats) {
    st.evaluations += 1;
    st.transitions += 1;
    let exp = expect(c);
    let res = std::panic::catch_unwind(|| {
        let resp = c.build()?;
        Ok::<_, String>(ipp::util::is_printer_ready(&resp))
    });
    let key = fnv(format!("{:?}", c).as_bytes());
    st.states.insert(key);
    if !matches!(exp, Expect::Either | Expect::OkAny) {
        st.nontrivial.insert(key);
    }
    st.traces += 1;
    let got = match res {
        Ok(Ok(r)) => r,
        Ok(Err(e)) => {
            st.violate("cannot-build", e, c.to_json());
            return;
        }
        Err(p) => {
            st.outcome("panic");
            st.violate("panic", panic_text(p), c.to_json());
            return;
        }
    };
    let describe = |g: &Result<bool, IppError>| match g {
        Ok(b) => format!("Ok({})", b),
        Err(e) => format!("Err({:?})", e),
    };
    let mut bad: Option<(&str, String)> = None;
    match (&exp, &got) {
        (Expect::ErrStatus, Err(IppError::StatusError(sc))) => {
            let registered = reg::lookup_code(reg::STATUS, c.status as u32).is_some();
            let ok = if registered {
                *sc as u16 == c.status
            } else {
                *sc == StatusCode::UnknownStatusCode || *sc as u16 == c.status
            };
            if !ok {
                bad = Some(("wrong-status-in-error", format!("status {:#06x} reported as {:?}", c.status, sc)));
            }
            st.outcome("status-error");
        }
        (Expect::ErrStatus, other) => {
            bad = Some(("unsuccessful-status-not-an-error", format!("status {:#06x} gave {}", c.status, describe(other))));
            st.outcome("wrong");
        }
        (Expect::Either, _) => st.outcome("undefined-status-class"),
        (Expect::Ready(b), Ok(g)) => {
            if b != g {
                bad = Some((if *b { "ready-printer-reported-not-ready" } else { "blocked-printer-reported-ready" }, format!("expected Ok({}) got Ok({})", b, g)));
                st.outcome("wrong");
            } else {
                st.outcome(if *b { "ready" } else { "not-ready" });
            }
        }
        (Expect::OkAny, Ok(_)) => st.outcome("undefined-region"),
        (Expect::Ready(_), Err(e)) | (Expect::OkAny, Err(e)) => {
            bad = Some(("error-on-successful-status", format!("status {:#06x} gave Err({:?})", c.status, e)));
            st.outcome("wrong");
        }
    }
    if let Some((cls, d)) = bad {
        st.violate(cls, format!("{} for {}", d, c.to_json()), c.to_json());
    }
    st.sample(3, || json!({"case": c.to_json(), "expected": format!("{:?}", exp), "got": describe(&got)}));
}

fn tuples(len: usize) -> u64 {
    16u64.pow(len as u32)
}

fn tuple_of(len: usize, mut idx: u64) -> Vec<usize> {
    let mut t = vec![0; len];
    for i in (0..len).rev() {
        t[i] = (idx % 16) as usize;
        idx /= 16;
    }
    t
}

pub fn run(ctx: &Ctx) -> ! {
    silence_panics();
    let mut rep = Report::new(
        ctx,
        "exploration",
        "status x printer-state {absent, enum 3,4,5,6,0,-1, integer 5, keyword} x printer-state-reasons {absent, every ordered tuple of 1..n keywords over 10 blocking + 6 informational words, 5 non-keyword shapes} x shape {in memory, single keyword as 1-element set, wire bytes parsed} x context {printer group only, operation+job groups around, unrelated attributes, an unsupported-attributes group before the printer group with harmless decoys named printer-state / printer-state-reasons, job / unsupported groups around it with alarming decoys, two printer groups with the reasons only in the first and the state in the second, and the reverse}; plus all 65 536 status codes through the gate; verdict per case from the readiness spec R5 (defined regions only). distinct = case; non-trivial = case inside a defined region",
    );
    rep.assume("for status codes 0x0003-0x00ff (successful class, not defined by RFC 8011) either answer is accepted; cases outside the three defined regions accept any Ok(_)");
    if let Some(p) = &ctx.replay {
        let (_, j) = vmc::report::load_replay(p);
        let mut st = Stats::new();
        match Case::from_json(&j) {
            Some(c) => run_case(&c, &mut st),
            None => {
                eprintln!("MACHINERY-ERROR bad replay case");
                std::process::exit(2)
            }
        }
        for v in &st.violations {
            println!("replay: class={} detail={}", v.class, v.detail);
        }
        rep.absorb(st);
        rep.finish();
    }
    let statuses: [u16; 6] = [0, 1, 2, 0x0400, 0x0503, 0xffff];
    let full_len = ctx.tier.pick(2usize, 3usize);
    // reasons list for the full product
    let mut reasons: Vec<Reasons> = vec![Reasons::Absent];
    for l in 1..=full_len {
        for i in 0..tuples(l) {
            reasons.push(Reasons::Tuple(tuple_of(l, i)));
        }
    }
    for i in 0..N_ODD {
        reasons.push(Reasons::Odd(i));
    }
    let radices = [statuses.len() as u64, STATES as u64, reasons.len() as u64, 3, 7];
    let total = vmc::explore::product(&radices);
    for p in par_range(ctx.threads, total, 2048, Stats::new, |st, idx| {
        let t = vmc::explore::unrank(idx, &radices);
        let c = Case {
            status: statuses[t[0] as usize],
            state: t[1] as usize,
            reasons: reasons[t[2] as usize].clone(),
            shape: t[3] as usize,
            context: t[4] as usize,
        };
        if c.shape == 1 && !matches!(&c.reasons, Reasons::Tuple(t) if t.len() == 1) {
            return; // the 1-element-set shape only exists for single keywords
        }
        run_case(&c, st);
    }) {
        rep.absorb(p);
    }
    // longer tuples on the reduced product
    let long = full_len + 1;
    let radices2 = [tuples(long), 3, 2];
    for p in par_range(ctx.threads, vmc::explore::product(&radices2), 2048, Stats::new, |st, idx| {
        let t = vmc::explore::unrank(idx, &radices2);
        let c = Case {
            status: 0,
            state: [1usize, 3, 0][t[1] as usize],
            reasons: Reasons::Tuple(tuple_of(long, t[0])),
            shape: [0usize, 2][t[2] as usize],
            context: 0,
        };
        run_case(&c, st);
    }) {
        rep.absorb(p);
    }
    // the status gate alone: all 65 536 codes
    for p in par_range(ctx.threads, 65536, 2048, Stats::new, |st, idx| {
        for (state, reasons) in [(1usize, Reasons::Tuple(vec![10])), (3usize, Reasons::Tuple(vec![0]))] {
            let c = Case {
                status: idx as u16,
                state,
                reasons,
                shape: 0,
                context: 0,
            };
            run_case(&c, st);
        }
    }) {
        rep.absorb(p);
    }
    rep.set("full_product_tuple_length", json!(full_len));
    rep.set("reduced_product_tuple_length", json!(long));
    let _ = Tier::Quick;
    rep.finish()
}
