#!/usr/bin/env python3
"""Regenerates the table after <!-- SEEDED-TABLE --> in DESIGN.md from seeded/*/meta.json, seeded/RESULTS.json and
mutants/RESULTS.json."""
import json, glob, os
ROOT = "/verif"
STRENGTHENED = {
 "C04-1": "missed at first; C04 gained sections (iv) long periodic messages and (v) non-initial states (u^n then every continuation of <= 3 tokens)",
 "C08-1": "missed at first (the async consumer retried Interrupted); an Interrupted surfacing through AsyncRead is now a violation (futures-io contract)",
 "C09-1": "missed at first; the oracle now also rejects a mandatory/target attribute emitted in a later operation group",
 "C11-1": "missed at first; the request side gained a blocking payload source that reports Interrupted three times",
 "C15-1": "missed at first (family outside the two-phase class); families now have a one-token prefix and suffix, and three such families joined the callgrind list",
 "C17-1": "missed at first; contexts 3 and 4 add decoy printer-state / printer-state-reasons attributes in non-printer groups before and after the printer group",
 "C01-2": "missed by the quick tier at first (only three maximal-length atoms ran there); all length-boundary atoms now run in both tiers",
 "C02-2": "missed at first (needs a memberAttrName token that carries an attribute NAME, outside the 16-token alphabet); C02 gained family (g): extended alphabet + iterative deep-nesting screen + isolated confirmation",
 "C05-2": "missed at first (C05 injected no I/O errors, C07 excluded WouldBlock on the async side); C05 gained the I/O-error equivalence section",
 "C06-2": "missed at first (no value longer than 4096 octets in the C06 inputs); long-value inputs added",
 "C08-2": "missed at first (no zero-length buffer in the consumer alphabet); size 0 added",
 "C14-2": "missed at first (no literal @ in the user-info alphabet); D-uri extended to 54 880 URIs",
 "C15-2": "missed at first (needs a prefix and a two-token second phase); family class extended",
 "C16-2": "missed at first (name unknown to the RFC 8011 table); extended registry consulted by the by-name rule",
 "C18-2": "missed at first (only 0x040a / 0x0503 were scripted); statuses with a zero low byte added",
 "C01-3": "strengthened from the agent's description before the first run (the previous space had no attribute NAMED like the five special names): family B' special-names",
 "C02-3": "strengthened before the first run (needs a three-token unit: member name, begin collection, group delimiter): |u| = 3 deep-screen families",
 "C06-3": "strengthened before the first run (no payload above 70 000 bytes in C06): 1 MiB + 64 KiB + 1 payload",
 "C08-3": "strengthened before the first run (the async consumer always retried with the same buffer): buffer-switching consumer",
 "C09-3": "strengthened before the first run: base program with a second operation group; C19 caught the same change from the start",
 "C11-3": "strengthened before the first run (no check ever serialised a request object, changed it and serialised it again): C01 mutation histories on one object + C11 encode-mutate-send",
 "C13-3": "strengthened before the first run (no user-info of the product contained a host string): eighth user-info shape, 62 720 URIs",
 "C14-3": "caught from the start by the parallel run but with schedule-dependent witnesses; C13/C14 now also run the product in ascending and in descending order on one thread (history made deterministic)",
 "C18-3": "strengthened before the first run (no option text contained a comma): two comma options added",
 "C01-5": "missed at first (no attribute name differing from a special name only in case): look-alike family",
 "C03-5": "missed at first (same change as C01-5, found independently by a second agent): look-alike family",
 "C05-5": "missed at first (no name longer than 256 octets with a multi-octet character across the block boundary): multi-octet texts at every alignment",
 "C06-5": "missed by C06 at first (C08 caught it from the start): C06 now reads the document through the interface that did not parse",
 "C07-5": "missed at first (needs a logger AND a long non-ASCII name AND a fault inside that attribute's value): evaluating logger + multi-octet names in the C07 corpus",
 "C08-5": "missed at first (no failing payload source): failing-payload-sources section",
 "C11-5": "missed at first (only full stalls were scripted): dribbling servers",
 "C12-5": "missed at first (needs a DER root ending in white space, 2 % of certificates): same-anchor certificate re-signed until it does",
 "C14-5": "missed at first (mapper and hook untouched; only what send() contacts is wrong): wire half of C14 / C11",
 "C16-5": "missed at first (decoding depended on the header's version; the sweep used 1.1 only): version x request-id dimension",
 "C18-5": "missed at first (no zero-padded integer of >= 12 characters among the option texts): typing witnesses with an independent decimal rule",
 "C19-5": "missed at first (no collection member with an empty name): tricky member names",
 "C20-5": "missed at first (no two names equal up to case in one group): name twins",
 "C01-6": "missed at first (no charset value other than utf-8 next to non-ASCII text): charset-variants family",
 "C05-6": "missed at first (no field whose length is an exact multiple of 10240): length ladder",
 "C06-6": "missed at first (largest document 1 MiB + 64 KiB + 1): huge documents from a pattern generator",
 "C07-6": "missed at first (injected errors were bare kinds with a text payload): error shapes",
 "C08-6": "missed at first (failing sources were sticky and the consumer stopped at the first error): transient failures, consumer reads on",
 "C09-6": "missed at first (no operation attribute named document-uri among the additions): all RFC 8011 / CUPS operation attribute names",
 "C10-6": "missed at first (no list longer than 4): long argument lists",
 "C11-6": "missed at first (largest response document 70 000 bytes): huge bodies under each framing",
 "C12-6": "missed at first (one ignore_tls_errors call per builder): flag sequences",
 "C16-6": "missed at first (the library is untouched; the CLI classifies on its own): status sweep through ipputil print, in C18 and as a section of C16",
 "C18-6": "missed at first (no connection reset with later connections served): reset scenarios in C18 and C11",
 "C20-6": "missed at first (no attribute named like a field of the data model): structural names",
 "C01-7": "missed at first (no dateTime with direction '-' and zero offset): direction x offset grid",
 "C02-7": "missed at first (no nesting with a sibling value at every level): sibling nesting bombs",
 "C06-7": "missed at first (no vectored reads): vectored async reads of the document (C08's vectored consumers catch it too)",
 "C08-7": "missed at first (no vectored reads): vectored consumers with five slice shapes",
 "C09-7": "missed at first (every base had the operation group first in memory): base built from IppAttributes::new()",
 "C10-7": "missed at first (the process environment was whatever the caller had): hostile environment set by both engines",
 "C11-7": "missed at first (error statuses carried no IPP body with an error status): four body kinds",
 "C12-7": "missed at first (PEM roots were clean ASCII): UTF-8 explanatory text around the armour",
 "C14-7": "missed at first (no path beginning with an empty segment): two such paths in the product and on the wire",
 "C15-7": "missed at first (no long name carrying many values): two families",
 "C16-7": "missed by C16 at first (C17 caught it from the start): readiness status gate in C16",
 "C17-7": "missed at first (state and reasons always in one printer group): split-group contexts",
 "C18-7": "missed at first (the peer always wrote 'Content-Type: application/ipp'): five spellings",
 "C20-7": "missed at first (no raw octets spelling a hex literal): encoded-looking octets among the atoms",
 "C09-8": "missed at first (mandatory names always carried their RFC syntax): the names with another syntax among the additions",
 "C16-8": "missed at first (parsed responses in the sweep had no attribute groups): three group layouts, status word must come through untouched",
 "C19-8": "missed at first (traversal used next() only): nth / skip / step_by / count on a partly consumed traversal",
 "C20-8": "missed at first (no keyword spelling a number or a boolean): texts spelling another kind among the string witnesses",
 "C18-1": "missed by C18 at first (caught by C17 from the start); C18 now scripts all 10 blocking reasons, scalar and inside a set",
}
def main():
    res = {r["name"]: r for r in json.load(open(f"{ROOT}/seeded/RESULTS.json"))} if os.path.exists(f"{ROOT}/seeded/RESULTS.json") else {}
    rows = ["| seeded change | property | needs, in order to manifest | repository suite | caught by (violation classes) | note |", "|---|---|---|---|---|---|"]
    for d in sorted(glob.glob(f"{ROOT}/seeded/*/meta.json")):
        m = json.load(open(d))
        r = res.get(m["name"], {})
        classes = ", ".join(f"`{c}`" for c in r.get("classes", [])[:3]) or "—"
        caught = f"{m['property']}: {classes}" if r.get("detected") else "**NOT CAUGHT**"
        rows.append(f"| {m['name']} | {m['property']} | {m['needs_to_manifest']} | {r.get('repo_tests', m['verified'].get('suite_with_patch','?'))} | {caught} | {STRENGTHENED.get(m['name'], '')} |")
    mres = json.load(open(f"{ROOT}/mutants/RESULTS.json")) if os.path.exists(f"{ROOT}/mutants/RESULTS.json") else []
    rows.append("")
    rows.append("Own mutants (`mutants/*.diff`): " + ", ".join(f"{r['name']}→{r['property']}{'' if r.get('detected') else ' **MISSED**'}" for r in mres) + ".")
    s = open(f"{ROOT}/DESIGN.md").read()
    marker = "<!-- SEEDED-TABLE -->"
    s = s[:s.index(marker) + len(marker)] + "\n\n" + "\n".join(rows) + "\n"
    open(f"{ROOT}/DESIGN.md", "w").write(s)
    print(len(rows) - 4, "seeded rows;", len(mres), "own mutants")
main()
