#!/usr/bin/env python3
"""Applies each patch of /verif/seeded-benign/*/ to /repo, runs ALL quick checks, expects silence; results in seeded-benign/RESULTS.json.
usage: selftest_benign2.py [name-substring] [--only-own]   (--only-own: run only the check of the patch's own property + its neighbours)"""
import subprocess, json, re, sys, glob, os
REPO="/repo"; ROOT="/verif"
def sh(cmd,cwd=None): return subprocess.run(cmd,cwd=cwd,shell=True,capture_output=True,text=True)
ids=[json.loads(l)["id"] for l in open(ROOT+"/properties.jsonl")]
only=[a for a in sys.argv[1:] if not a.startswith("--")]
for a in sys.argv[1:]:
    if a.startswith("--checks="):
        ids=[x for x in a[len("--checks="):].split(",") if x]
assert sh("git status --porcelain",REPO).stdout.strip()=="", "/repo must be clean"
res=[]
for d in sorted(glob.glob(ROOT+"/seeded-benign/*/")):
    m=json.load(open(d+"meta.json"))
    if only and only[0] not in m["name"]: continue
    r=sh(f"git apply {d}patch.diff",REPO)
    if r.returncode: print(m["name"],"does not apply"); continue
    try:
        alarms={}
        for pid in ids:
            c=sh(f"./check {pid} --tier quick",ROOT)
            if c.returncode!=0:
                alarms[pid]=[c.returncode, re.findall(r"violation class=(\S+)",c.stderr)[:4], re.findall(r"detail=(.{0,300})",c.stderr)[:2], (c.stdout+c.stderr)[-400:] if c.returncode==2 else ""]
        print(f"{m['name']:12s} {m['property']} alarms={ {k:v[:2] for k,v in alarms.items()} }",flush=True)
        res.append({"name":m["name"],"property":m["property"],"alarms":alarms})
    finally:
        sh("git checkout -- .",REPO)
out=ROOT+"/seeded-benign/RESULTS.json"; prev=[]
restricted=any(a.startswith("--checks=") for a in sys.argv[1:])
if os.path.exists(out):
    old=json.load(open(out))
    if restricted:
        # a restricted run only refreshes the listed checks: keep the alarms recorded for the others
        byname={r["name"]:r for r in old}
        for x in res:
            o=byname.get(x["name"])
            if o:
                for k,v in o["alarms"].items():
                    if k not in ids: x["alarms"].setdefault(k,v)
            x["last_restricted_run"]=ids
    prev=[r for r in old if all(r["name"]!=x["name"] for x in res)]
json.dump(prev+res,open(out,"w"),indent=1)
