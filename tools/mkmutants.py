#!/usr/bin/env python3
"""Builds /verif/mutants/*.diff: hand-written property-breaking changes to /repo (own seeded faults, DESIGN §8).
Each entry: (name, property, [(file, old, new), ...], needs). The patches are produced against the current
/repo HEAD by editing the working tree, capturing `git diff`, and reverting — nothing is ever committed."""
import subprocess, os, sys, json

REPO = "/repo"
OUT = "/verif/mutants"

M = [
 ("M01a-range-encoder-swapped", "C01", [("ipp/src/value.rs", "                buffer.put_u16(8);\n                buffer.put_i32(min);\n                buffer.put_i32(max);", "                buffer.put_u16(8);\n                buffer.put_i32(max);\n                buffer.put_i32(min);")], "a rangeOfInteger value with min != max"),
 ("M01b-textlang-total-length-off-by-one", "C01", [("ipp/src/value.rs", "            IppValue::TextWithLanguage { ref language, ref text } => {\n                buffer.put_u16((language.len() + text.len() + 4) as u16);", "            IppValue::TextWithLanguage { ref language, ref text } => {\n                buffer.put_u16((language.len() + text.len() + 3) as u16);")], "a textWithLanguage value"),
 ("M02a-boolean-width-check-removed", "C02", [("ipp/src/value.rs", "            ValueTag::Boolean => {\n                ensure_len(&data, 1)?;", "            ValueTag::Boolean => {")], "a boolean with value-length 0 from the wire"),
 ("M02b-depth-limit-raised", "C02", [("ipp/src/parser.rs", "const MAX_COLLECTION_DEPTH: usize = 128;", "const MAX_COLLECTION_DEPTH: usize = 100_000;")], "thousands of nested collections with member names"),
 ("M03a-uri-urischeme-tags-swapped", "C03", [("ipp/src/model.rs", "    Uri = 0x45,\n    UriScheme = 0x46,", "    Uri = 0x46,\n    UriScheme = 0x45,")], "a uri or uriScheme value (symmetric: invisible to the round trip)"),
 ("M03b-resolution-fields-swapped-both-sides", "C03", [("ipp/src/value.rs", "                IppValue::Resolution {\n                    cross_feed: data.get_i32(),\n                    feed: data.get_i32(),", "                IppValue::Resolution {\n                    feed: data.get_i32(),\n                    cross_feed: data.get_i32(),"), ("ipp/src/value.rs", "                buffer.put_u16(9);\n                buffer.put_i32(cross_feed);\n                buffer.put_i32(feed);", "                buffer.put_u16(9);\n                buffer.put_i32(feed);\n                buffer.put_i32(cross_feed);")], "a resolution value with cross_feed != feed"),
 ("M04a-unsupported-group-tag-rejected", "C04", [("ipp/src/parser.rs", "            match self.reader.read_tag()? {\n                tag @ 0x01..=0x05 => {", "            match self.reader.read_tag()? {\n                tag @ 0x01..=0x04 => {")], "a message with an unsupported-attributes group (blocking parser only)"),
 ("M04b-0x4b-accepted-as-value", "C04", [("ipp/src/parser.rs", "                tag @ 0x10..=0x4a => self.parse_value(tag)?,", "                tag @ 0x10..=0x4b => self.parse_value(tag)?,")], "byte 0x4b at a tag position (blocking parser)"),
 ("M04c-last-attribute-lost-on-group-switch", "C04", [("ipp/src/parser.rs", "        self.add_last_attribute();\n\n        if let Some(group) = self.current_group.take() {", "        if tag != DelimiterTag::EndOfAttributes {\n            self.add_last_attribute();\n        }\n\n        if let Some(group) = self.current_group.take() {")], "the last attribute before the end tag is dropped"),
 ("M05a-async-tag-range-short", "C05", [("ipp/src/parser.rs", "                tag @ 0x10..=0x4a => self.parse_value(tag).await?,", "                tag @ 0x10..=0x49 => self.parse_value(tag).await?,")], "a memberAttrName (collection) through the async parser"),
 ("M05b-async-u16-single-read", "C05", [("ipp/src/reader.rs", "    async fn read_u16(&mut self) -> io::Result<u16> {\n        let mut buf = [0u8; 2];\n        self.inner.read_exact(&mut buf).await?;", "    async fn read_u16(&mut self) -> io::Result<u16> {\n        let mut buf = [0u8; 2];\n        let _ = self.inner.read(&mut buf).await?;")], "a chunk boundary inside a 16-bit length field (async source)"),
 ("M06a-blocking-read-bytes-single-read", "C06", [("ipp/src/reader.rs", "    fn read_bytes(&mut self, len: usize) -> io::Result<Bytes> {\n        let mut buf = vec![0; len];\n        self.inner.read_exact(&mut buf)?;", "    fn read_bytes(&mut self, len: usize) -> io::Result<Bytes> {\n        let mut buf = vec![0; len];\n        let _ = self.inner.read(&mut buf)?;")], "a chunk boundary inside a name or value (blocking source)"),
 ("M06b-peek-after-end-tag", "C06", [("ipp/src/parser.rs", "                tag @ 0x01..=0x05 => {\n                    if self.state.parse_delimiter(tag)? == DelimiterTag::EndOfAttributes {\n                        break;\n                    }\n                }\n                tag @ 0x10..=0x4a => self.parse_value(tag)?,", "                tag @ 0x01..=0x05 => {\n                    if self.state.parse_delimiter(tag)? == DelimiterTag::EndOfAttributes {\n                        let _ = self.reader.read_tag();\n                        break;\n                    }\n                }\n                tag @ 0x10..=0x4a => self.parse_value(tag)?,")], "a payload after the end tag (blocking parser eats its first byte)"),
 ("M07a-eof-at-tag-position-accepted", "C07", [("ipp/src/parser.rs", "        loop {\n            match self.reader.read_tag()? {\n                tag @ 0x01..=0x05 => {\n                    if self.state.parse_delimiter(tag)? == DelimiterTag::EndOfAttributes {\n                        break;\n                    }\n                }\n                tag @ 0x10..=0x4a => self.parse_value(tag)?,", "        loop {\n            let tag = match self.reader.read_tag() {\n                Ok(tag) => tag,\n                Err(e) if e.kind() == io::ErrorKind::UnexpectedEof => break,\n                Err(e) => return Err(e.into()),\n            };\n            match tag {\n                tag @ 0x01..=0x05 => {\n                    if self.state.parse_delimiter(tag)? == DelimiterTag::EndOfAttributes {\n                        break;\n                    }\n                }\n                tag @ 0x10..=0x4a => self.parse_value(tag)?,")], "a stream cut exactly at a tag position (blocking parser)"),
 ("M08a-payload-capped-at-8192", "C08", [("ipp/src/request.rs", "        io::Cursor::new(header).chain(self.payload)\n", "        io::Cursor::new(header).chain(Read::take(self.payload, 8192))\n")], "a payload longer than 8192 bytes read through into_read()"),
 ("M09a-printer-uri-not-in-header-list", "C09", [("ipp/src/attribute.rs", "    const HEADER_ATTRS: [&'static str; 5] = [\n        IppAttribute::ATTRIBUTES_CHARSET,\n        IppAttribute::ATTRIBUTES_NATURAL_LANGUAGE,\n        IppAttribute::PRINTER_URI,\n        IppAttribute::JOB_URI,", "    const HEADER_ATTRS: [&'static str; 4] = [\n        IppAttribute::ATTRIBUTES_CHARSET,\n        IppAttribute::ATTRIBUTES_NATURAL_LANGUAGE,\n        IppAttribute::JOB_URI,")], "an unlucky hash order puts another attribute before printer-uri"),
 ("M10a-last-document-negated", "C10", [("ipp/src/operation.rs", "IppAttribute::new(IppAttribute::LAST_DOCUMENT, IppValue::Boolean(self.last)),", "IppAttribute::new(IppAttribute::LAST_DOCUMENT, IppValue::Boolean(!self.last)),")], "any Send-Document request"),
 ("M10b-requested-attributes-skip-first", "C10", [("ipp/src/operation.rs", "            let vals: Vec<IppValue> = self.attributes.into_iter().map(IppValue::Keyword).collect();", "            let vals: Vec<IppValue> = self.attributes.into_iter().skip(1).map(IppValue::Keyword).collect();")], "Get-Printer-Attributes with requested attributes"),
 ("M10c-user-name-first-wins", "C10", [("ipp/src/operation/builder.rs", "impl CancelJobBuilder {\n    fn new(printer_uri: Uri, job_id: i32) -> CancelJobBuilder {\n        CancelJobBuilder {\n            printer_uri,\n            job_id,\n            user_name: None,\n        }\n    }\n\n    /// Specify originating-user-name attribute\n    pub fn user_name<S>(mut self, user_name: S) -> Self\n    where\n        S: AsRef<str>,\n    {\n        self.user_name = Some(user_name.as_ref().to_owned());", "impl CancelJobBuilder {\n    fn new(printer_uri: Uri, job_id: i32) -> CancelJobBuilder {\n        CancelJobBuilder {\n            printer_uri,\n            job_id,\n            user_name: None,\n        }\n    }\n\n    /// Specify originating-user-name attribute\n    pub fn user_name<S>(mut self, user_name: S) -> Self\n    where\n        S: AsRef<str>,\n    {\n        self.user_name.get_or_insert(user_name.as_ref().to_owned());")], "user_name called twice on the Cancel-Job builder"),
 ("M13a-userinfo-without-port-passes-through", "C13", [("ipp/src/util.rs", "        } else {\n            builder = builder.authority(authority.host());\n        }", "        } else {\n            builder = builder.authority(authority.as_str());\n        }")], "a target with user-info and no explicit port"),
 ("M14a-ipp-default-port-80", "C14", [("ipp/src/client.rs", "        Some(\"ipp\") => (\"http\", 631),", "        Some(\"ipp\") => (\"http\", 80),")], "an ipp:// target without port (the repo test only pins... checked)"),
 ("M14b-query-dropped-when-port-defaulted", "C14", [("ipp/src/client.rs", "    let path_and_query = uri.path_and_query().map(|p| p.as_str()).unwrap_or_default();\n", "    let path_and_query = if uri.port_u16().is_some() {\n        uri.path_and_query().map(|p| p.as_str()).unwrap_or_default()\n    } else {\n        uri.path()\n    };\n")], "an ipp target with a query and no explicit port"),
 ("M15a-member-values-cloned-again", "C15", [("ipp/src/parser.rs", "                    if let Some((name, values)) = member {\n                        if !values.is_empty() {\n                            map.insert(name, list_or_value(values));\n                        }\n                    }", "                    if let Some((name, values)) = member {\n                        if !values.is_empty() {\n                            map.insert(name, list_or_value(values.clone()));\n                            drop(values);\n                        }\n                    }")], "deeply nested collections (quadratic copy)"),
 ("M15b-additional-values-copy-the-list", "C15", [("ipp/src/parser.rs", "        } else if let Some(val_list) = self.context.last_mut() {\n            // add attribute to the current collection\n            val_list.push(ipp_value);", "        } else if let Some(val_list) = self.context.last_mut() {\n            // add attribute to the current collection\n            let mut list = val_list.clone();\n            list.push(ipp_value);\n            *val_list = list;")], "a very wide set (quadratic copy of the pending list)"),
 ("M16a-punch-quad-bottom-86", "C16", [("ipp/src/model.rs", "    PunchQuadBottom = 85,", "    PunchQuadBottom = 86,")], "finishings enum value 85/86"),
 ("M16b-bad-request-is-success", "C16", [("ipp/src/model.rs", "                | StatusCode::SuccessfulOkConflictingAttributes\n        )", "                | StatusCode::SuccessfulOkConflictingAttributes\n                | StatusCode::ClientErrorBadRequest\n        )")], "status 0x0400 (also C17)"),
 ("M17a-door-open-dropped", "C17", [("ipp/src/util.rs", "    \"door-open\",\n", "")], "printer-state-reasons containing door-open"),
 ("M17b-only-first-reason-inspected", "C17", [("ipp/src/util.rs", "            .into_iter()\n            .filter_map(|e| e.as_keyword())", "            .into_iter()\n            .take(1)\n            .filter_map(|e| e.as_keyword())")], "a blocking reason that is not the first element of the set"),
 ("M19a-add-uses-last-group", "C19", [("ipp/src/attribute.rs", "        let group = self.groups_mut().iter_mut().find(|g| g.tag() == tag);", "        let group = self.groups_mut().iter_mut().rev().find(|g| g.tag() == tag);")], "a parsed message with two groups of the same kind, then add()"),
 ("M19b-collection-iterator-skips-first", "C19", [("ipp/src/value.rs", "                if let Some(entry) = map.iter().nth(self.index) {", "                if let Some(entry) = map.iter().nth(self.index + 1) {")], "iterating a collection value"),
 ("M20a-enum-variant-renamed-to-integer", "C20", [("ipp/src/value.rs", "    Integer(i32),\n    Enum(i32),", "    Integer(i32),\n    #[cfg_attr(feature = \"serde\", serde(rename = \"Integer\"))]\n    Enum(i32),")], "an enum value through serde"),
]

def sh(*a, **k):
    return subprocess.run(a, cwd=REPO, capture_output=True, text=True, **k)

def main():
    assert sh("git", "status", "--porcelain").stdout.strip() == "", "/repo working tree must be clean"
    os.makedirs(OUT, exist_ok=True)
    index = []
    for name, prop, edits, needs in M:
        ok = True
        for f, old, new in edits:
            p = os.path.join(REPO, f)
            s = open(p).read()
            if s.count(old) != 1:
                print("SKIP", name, ": anchor found", s.count(old), "times in", f)
                ok = False
                break
            open(p, "w").write(s.replace(old, new))
        if ok:
            d = sh("git", "diff").stdout
            open(os.path.join(OUT, name + ".diff"), "w").write(d)
            index.append({"name": name, "property": prop, "needs": needs})
        sh("git", "checkout", "--", ".")
    json.dump(index, open(os.path.join(OUT, "index.json"), "w"), indent=1)
    print(len(index), "mutants written")

if __name__ == "__main__":
    main()
