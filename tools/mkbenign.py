#!/usr/bin/env python3
"""Behaviour-preserving (or property-preserving) changes to /repo: every check must stay silent on them.
Produces /verif/mutants/benign/*.diff; `selftest_benign.py` applies each and runs ALL quick checks."""
import subprocess, os, json
REPO="/repo"; OUT="/verif/mutants/benign"
B = [
 ("B01-encode-attributes-sorted-by-name", [("ipp/src/attribute.rs",
   "            // now the other operation attributes\n            for attr in group.attributes().values() {\n                if !is_header_attr(attr.name()) {\n                    buffer.put(attr.to_bytes());\n                }\n            }",
   "            // now the other operation attributes (sorted by name for reproducible output)\n            let mut others: Vec<&IppAttribute> = group.attributes().values().filter(|a| !is_header_attr(a.name())).collect();\n            others.sort_by(|a, b| a.name().cmp(b.name()));\n            for attr in others {\n                buffer.put(attr.to_bytes());\n            }")],
  "deterministic attribute order on the wire (any order is legal after the mandatory prefix)"),
 ("B02-status-table-extended-with-correct-codes", [("ipp/src/model.rs",
   "    ServerErrorMultipleDocumentJobsNotSupported = 0x0509,\n",
   "    ServerErrorMultipleDocumentJobsNotSupported = 0x0509,\n    ServerErrorPrinterIsDeactivated = 0x050A,\n    ServerErrorTooManyJobs = 0x050B,\n"),
   ("ipp/src/model.rs",
   "            StatusCode::UnknownStatusCode => write!(f, \"Unknown status code\"),",
   "            StatusCode::ServerErrorPrinterIsDeactivated => write!(f, \"Printer is deactivated\"),\n            StatusCode::ServerErrorTooManyJobs => write!(f, \"Too many jobs\"),\n            StatusCode::UnknownStatusCode => write!(f, \"Unknown status code\"),")],
  "status table extended with two correct IANA codes"),
 ("B03-canonical-host-lowercased", [("ipp/src/util.rs",
   "            builder = builder.authority(format!(\"{}:{}\", authority.host(), port).as_str());\n        } else {\n            builder = builder.authority(authority.host());",
   "            builder = builder.authority(format!(\"{}:{}\", authority.host().to_ascii_lowercase(), port).as_str());\n        } else {\n            builder = builder.authority(authority.host().to_ascii_lowercase().as_str());")],
  "printer-uri host lower-cased (hosts are case-insensitive)"),
 ("B04-strict-fixed-widths", [("ipp/src/value.rs",
   "            ValueTag::Integer => {\n                ensure_len(&data, 4)?;",
   "            ValueTag::Integer => {\n                ensure_len(&data, 4)?;\n                if data.remaining() != 4 {\n                    return Err(io::Error::new(io::ErrorKind::InvalidData, \"integer value must be 4 octets\"));\n                }")],
  "integer values longer than 4 octets are rejected too (RFC 8010 says exactly 4)"),
 ("B05-readiness-also-matches-suffixed-reasons", [("ipp/src/util.rs",
   "        if keywords.iter().any(|k| ERROR_STATES.contains(&&k[..])) {",
   "        let base = |k: &str| k.trim_end_matches(\"-error\").trim_end_matches(\"-warning\").trim_end_matches(\"-report\").to_owned();\n        if keywords.iter().any(|k| ERROR_STATES.contains(&&k[..]) || ERROR_STATES.contains(&&base(k)[..])) {")],
  "media-jam-error / paused-warning etc. also count as blocking (stricter, never reports a blocked printer ready)"),
 ("B06-parser-reads-header-in-one-read-exact", [("ipp/src/reader.rs",
   "    pub fn read_header(&mut self) -> io::Result<IppHeader> {\n        let version = IppVersion(self.read_u16()?);\n        let operation_status = self.read_u16()?;\n        let request_id = self.read_u32()?;\n",
   "    pub fn read_header(&mut self) -> io::Result<IppHeader> {\n        let mut buf = [0u8; 8];\n        self.inner.read_exact(&mut buf)?;\n        let version = IppVersion(u16::from_be_bytes([buf[0], buf[1]]));\n        let operation_status = u16::from_be_bytes([buf[2], buf[3]]);\n        let request_id = u32::from_be_bytes([buf[4], buf[5], buf[6], buf[7]]);\n")],
  "blocking reader fetches the 8 header octets with one read_exact (no read-ahead, same results)"),
 ("B07-extra-request-header", [("ipp/src/client.rs",
   "                .set(\"content-type\", \"application/ipp\");",
   "                .set(\"content-type\", \"application/ipp\")\n                .set(\"accept\", \"application/ipp\");")],
  "blocking client adds an Accept header (extra headers are allowed)"),
]
def sh(*a): return subprocess.run(a, cwd=REPO, capture_output=True, text=True)
def main():
    assert sh("git","status","--porcelain").stdout.strip()=="", "/repo must be clean"
    os.makedirs(OUT, exist_ok=True); idx=[]
    for name, edits, why in B:
        ok=True
        for f,old,new in edits:
            p=os.path.join(REPO,f); s=open(p).read()
            if s.count(old)!=1:
                print("SKIP",name,"anchor",s.count(old),"in",f); ok=False; break
            open(p,"w").write(s.replace(old,new))
        if ok:
            open(os.path.join(OUT,name+".diff"),"w").write(sh("git","diff").stdout); idx.append({"name":name,"why":why})
        sh("git","checkout","--",".")
    json.dump(idx, open(os.path.join(OUT,"index.json"),"w"), indent=1); print(len(idx),"benign patches")
main()
