#!/usr/bin/env python3
"""Applies each benign patch, confirms the repository suite passes, runs ALL quick checks and expects silence."""
import subprocess, json, re, sys, time
REPO="/repo"; ROOT="/verif"
def sh(cmd,cwd=None): return subprocess.run(cmd,cwd=cwd,shell=True,capture_output=True,text=True)
ids=[json.loads(l)["id"] for l in open(ROOT+"/properties.jsonl")]
only = sys.argv[1] if len(sys.argv)>1 else None
assert sh("git status --porcelain",REPO).stdout.strip()=="", "/repo must be clean"
res=[]
for b in json.load(open(ROOT+"/mutants/benign/index.json")):
    if only and only not in b["name"]: continue
    r=sh(f"git apply {ROOT}/mutants/benign/{b['name']}.diff",REPO)
    if r.returncode: print(b["name"],"does not apply",r.stderr[:200]); continue
    try:
        t=sh("cargo test --workspace --no-fail-fast --offline 2>&1 | grep -E '^test result'",REPO)
        passed=sum(int(x) for x in re.findall(r"(\d+) passed",t.stdout)); failed=sum(int(x) for x in re.findall(r"(\d+) failed",t.stdout))
        alarms={}
        for pid in ids:
            c=sh(f"./check {pid} --tier quick",ROOT)
            if c.returncode!=0:
                alarms[pid]=(c.returncode, re.findall(r"violation class=(\S+)",c.stderr)[:3], (c.stdout+c.stderr)[-300:] if c.returncode==2 else "")
        print(f"{b['name']:52s} suite[{passed} passed, {failed} failed] alarms={alarms}",flush=True)
        res.append({"name":b["name"],"why":b["why"],"suite":f"{passed} passed, {failed} failed","alarms":{k:[v[0],v[1]] for k,v in alarms.items()}})
    finally:
        sh("git checkout -- .",REPO)
prev=[]
import os
out=ROOT+"/mutants/benign/RESULTS.json"
if only and os.path.exists(out): prev=[r for r in json.load(open(out)) if all(r["name"]!=x["name"] for x in res)]
json.dump(prev+res,open(out,"w"),indent=1)
