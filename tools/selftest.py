#!/usr/bin/env python3
"""Detection self-test: applies each patch of /verif/mutants (or /verif/seeded/*/patch.diff) to /repo's working
tree, confirms the repository's own suite still passes, runs the targeted check(s) and expects a VIOLATION
(twice, same replay), then reverts. Nothing is committed to /repo.
usage: selftest.py [--tier quick|thorough] [--only NAME-substring] [--seeded] [--skip-repo-tests]"""
import subprocess, os, sys, json, re, time, glob

REPO = "/repo"
ROOT = "/verif"

def sh(cmd, cwd=None, timeout=3600):
    return subprocess.run(cmd, cwd=cwd, shell=True, capture_output=True, text=True, timeout=timeout)

def main():
    tier = "quick"
    only = None
    seeded = False
    skip_tests = False
    a = sys.argv[1:]
    while a:
        x = a.pop(0)
        if x == "--tier": tier = a.pop(0)
        elif x == "--only": only = a.pop(0)
        elif x == "--seeded": seeded = True
        elif x == "--skip-repo-tests": skip_tests = True
    assert sh("git status --porcelain", REPO).stdout.strip() == "", "/repo must be clean"
    items = []
    if seeded:
        for d in sorted(glob.glob(ROOT + "/seeded/*/")):
            meta = json.load(open(d + "meta.json"))
            items.append((os.path.basename(d.rstrip("/")), meta["property"], d + "patch.diff", meta.get("also", [])))
    else:
        for m in json.load(open(ROOT + "/mutants/index.json")):
            items.append((m["name"], m["property"], f"{ROOT}/mutants/{m['name']}.diff", m.get("also", [])))
    results = []
    for name, prop, patch, also in items:
        if only and only not in name:
            continue
        t0 = time.time()
        r = sh(f"git apply {patch}", REPO)
        if r.returncode != 0:
            print(f"{name}: patch does not apply: {r.stderr.strip()[:200]}")
            results.append({"name": name, "property": prop, "status": "patch-does-not-apply"})
            continue
        try:
            tests = "skipped"
            if not skip_tests:
                t = sh("cargo test --workspace --no-fail-fast --offline 2>&1 | grep -E '^test result'", REPO)
                passed = sum(int(x) for x in re.findall(r"(\d+) passed", t.stdout))
                failed = sum(int(x) for x in re.findall(r"(\d+) failed", t.stdout))
                tests = f"{passed} passed, {failed} failed"
            verdicts = {}
            for pid in [prop] + list(also):
                runs = []
                for _ in range(2):
                    c = sh(f"./check {pid} --tier {tier}", ROOT)
                    viol = re.findall(r"^VIOLATION property=(\S+) replay=(\S+)", c.stdout, re.M)
                    classes = re.findall(r"violation class=(\S+)", c.stderr)
                    runs.append((c.returncode, sorted(set(v[1] for v in viol)), sorted(set(classes))))
                    if c.returncode not in (0, 1):
                        print(f"  !! {name}/{pid}: exit {c.returncode}: {(c.stdout[-600:] + c.stderr[-600:]).strip()}", flush=True)
                verdicts[pid] = runs
            detected = all(r[0] == 1 and r[1] for r in verdicts[prop])
            stable = verdicts[prop][0][2] == verdicts[prop][1][2]
            print(f"{name:48s} {prop} repo-tests[{tests}] detected={detected} stable-classes={stable} "
                  f"exit={[r[0] for r in verdicts[prop]]} classes={verdicts[prop][0][2][:3]} ({time.time()-t0:.0f}s)", flush=True)
            results.append({"name": name, "property": prop, "repo_tests": tests, "detected": detected, "stable": stable,
                            "tier": tier, "classes": verdicts[prop][0][2], "exit_codes": [r[0] for r in verdicts[prop]]})
        finally:
            sh("git checkout -- .", REPO)
    out = ROOT + ("/seeded/RESULTS.json" if seeded else "/mutants/RESULTS.json")
    prev = []
    if only and os.path.exists(out):
        prev = [r for r in json.load(open(out)) if all(r["name"] != x["name"] for x in results)]
    json.dump(prev + results, open(out, "w"), indent=1)
    missed = [r["name"] for r in results if not r.get("detected")]
    print("missed:", missed)

if __name__ == "__main__":
    main()
