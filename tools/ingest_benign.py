#!/usr/bin/env python3
"""File a sub-agent's property-PRESERVING change under /verif/seeded-benign/<name>/ after checking that the patch applies
and the repository suite passes with it. usage: ingest_benign.py <name> <property> <agent worktree> "<behavioural difference>" """
import subprocess, sys, os, json, shutil, re
def sh(cmd, cwd=None, env=None):
    e=dict(os.environ); e.update(env or {})
    return subprocess.run(cmd,cwd=cwd,shell=True,capture_output=True,text=True,env=e)
name, prop, wt, diff = sys.argv[1:5]
src=os.path.join(wt,"seed"); assert os.path.exists(src+"/patch.diff")
scratch=f"/tmp/verify-{name}"
sh(f"git -C /repo worktree remove --force {scratch}")
assert sh(f"git -C /repo worktree add -q --detach {scratch} HEAD").returncode==0
try:
    r=sh(f"git apply --check {src}/patch.diff && git apply {src}/patch.diff",scratch)
    if r.returncode: print("PATCH DOES NOT APPLY",r.stderr[:300]); sys.exit(1)
    t=sh("cargo test --workspace --no-fail-fast --offline 2>&1 | grep -E '^test result|^error'",scratch,{"CARGO_TARGET_DIR":"/tmp/seed-verify-target"})
    passed=sum(int(x) for x in re.findall(r"(\d+) passed",t.stdout)); failed=sum(int(x) for x in re.findall(r"(\d+) failed",t.stdout))
    if failed or passed<34: print("SUITE FAILS",t.stdout[-400:]); sys.exit(1)
    out=f"/verif/seeded-benign/{name}"; shutil.rmtree(out,ignore_errors=True); os.makedirs(out)
    shutil.copy(src+"/patch.diff",out)
    if os.path.exists(src+"/README.md"): shutil.copy(src+"/README.md",out+"/AGENT-README.md")
    json.dump({"name":name,"property":prop,"behavioural_difference":diff,"suite_with_patch":f"{passed} passed, {failed} failed",
               "origin":"independent sub-agent given only the property text; asked for a change under which the property still holds"},open(out+"/meta.json","w"),indent=1)
    print("INGESTED",out)
finally:
    sh(f"git -C /repo worktree remove --force {scratch}")
