#!/usr/bin/env python3
"""Verify an independently written seeded change and file it under /verif/seeded/<name>/.
usage: ingest_seed.py <name e.g. C05-1> <property> <agent worktree> "<what it needs to manifest>" [demo command]
Steps (all in a fresh scratch worktree of /repo under /tmp, removed afterwards):
  1. patch applies to /repo HEAD;   2. repository suite passes with the patch (32 unit tests + doc tests);
  3. demonstration FAILS with the patch; 4. demonstration PASSES without it."""
import subprocess, sys, os, json, shutil, re

def sh(cmd, cwd=None, env=None, timeout=3600):
    e = dict(os.environ); e.update(env or {})
    return subprocess.run(cmd, cwd=cwd, shell=True, capture_output=True, text=True, env=e, timeout=timeout)

def main():
    name, prop, wt, needs = sys.argv[1:5]
    demo_cmd = sys.argv[5] if len(sys.argv) > 5 else "cargo test -p ipp --test seed_demo --offline"
    src = os.path.join(wt, "seed")
    assert os.path.exists(os.path.join(src, "patch.diff")), "no patch.diff"
    scratch = f"/tmp/verify-{name}"
    sh(f"git -C /repo worktree remove --force {scratch}")
    r = sh(f"git -C /repo worktree add -q --detach {scratch} HEAD")
    assert r.returncode == 0, r.stderr
    env = {"CARGO_TARGET_DIR": "/tmp/seed-verify-target", "CARGO_NET_OFFLINE": "true"}
    log = {}
    try:
        r = sh(f"git apply --check {src}/patch.diff && git apply {src}/patch.diff", scratch)
        log["patch_applies"] = r.returncode == 0
        if r.returncode != 0:
            print("PATCH DOES NOT APPLY:", r.stderr[:500]); return 1
        touched = sh("git diff --stat", scratch).stdout
        log["diffstat"] = touched.strip().splitlines()
        t = sh("cargo test --workspace --no-fail-fast --offline 2>&1 | grep -E '^test result|^error'", scratch, env)
        passed = sum(int(x) for x in re.findall(r"(\d+) passed", t.stdout)); failed = sum(int(x) for x in re.findall(r"(\d+) failed", t.stdout))
        log["suite_with_patch"] = f"{passed} passed, {failed} failed"
        if failed or passed < 34 or "error" in t.stdout:
            print("SUITE DOES NOT PASS WITH PATCH:", t.stdout[-800:]); return 1
        # demo
        demo_dir = os.path.join(src, "demo")
        files = os.listdir(demo_dir)
        for f in files:
            if f.endswith(".rs"):
                os.makedirs(os.path.join(scratch, "ipp/tests"), exist_ok=True)
                shutil.copy(os.path.join(demo_dir, f), os.path.join(scratch, "ipp/tests", f))
            elif os.path.isdir(os.path.join(demo_dir, f)):
                shutil.copytree(os.path.join(demo_dir, f), os.path.join(scratch, f), dirs_exist_ok=True)
                shutil.copytree(os.path.join(demo_dir, f), os.path.join(scratch, "ipp/tests", f), dirs_exist_ok=True)
            else:
                shutil.copy(os.path.join(demo_dir, f), os.path.join(scratch, f))
        d1 = sh("( " + demo_cmd + " ) 2>&1", scratch, env)
        with_fail = d1.returncode != 0
        log["demo_with_patch"] = "fails" if with_fail else "PASSES (unexpected)"
        sh(f"git apply -R {src}/patch.diff", scratch)
        d2 = sh("( " + demo_cmd + " ) 2>&1", scratch, env)
        without_ok = d2.returncode == 0
        log["demo_without_patch"] = "passes" if without_ok else "FAILS (unexpected)"
        print(json.dumps(log, indent=1))
        if not with_fail or not without_ok:
            print("--- demo with patch:\n", d1.stdout[-1500:], "\n--- demo without patch:\n", d2.stdout[-1500:]); return 1
        out = f"/verif/seeded/{name}"
        shutil.rmtree(out, ignore_errors=True)
        os.makedirs(out)
        shutil.copy(os.path.join(src, "patch.diff"), out)
        shutil.copytree(demo_dir, os.path.join(out, "demo"))
        if os.path.exists(os.path.join(src, "README.md")):
            shutil.copy(os.path.join(src, "README.md"), os.path.join(out, "AGENT-README.md"))
        json.dump({"name": name, "property": prop, "needs_to_manifest": needs, "demo_command": demo_cmd,
                   "verified": log, "origin": "independent sub-agent given only the property text and a scratch worktree"},
                  open(os.path.join(out, "meta.json"), "w"), indent=1)
        print("INGESTED", out)
        return 0
    finally:
        sh(f"git -C /repo worktree remove --force {scratch}")

if __name__ == "__main__":
    sys.exit(main())
