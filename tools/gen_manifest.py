#!/usr/bin/env python3
"""Regenerates /verif/MANIFEST.json from the table below (single source of truth) and validates it."""
import json, sys, os

ROOT = os.path.dirname(os.path.dirname(os.path.abspath(__file__)))

HOOK_COMMITS = ["5e1063a"]

# id -> (category, technique, text, note, design_ref)
CHECKS = {
 "C01": ("exploration", "bounded-exhaustive enumeration of the value model on the real encoder+parsers (stateless exploration, E1), all map iteration orders observed",
         "Every message of a bounded value model (skeleton-exhaustive within a node budget over a 3-syntax leaf alphabet; every boundary atom of all 22 kinds in every context class; 16-bit length sweep; small payloads x headers) is built through the public API, serialised and parsed by both parsers, and compared with itself; each message is rebuilt until every HashMap iteration order of every group was observed. Coverage statement, not a sample; values outside the atom lists are only covered through the boundary witnesses.",
         "Trusts: the thin adapter ipp types -> model types; catch_unwind isolation; iteration orders covered by observation (complete for groups of <= 4 attributes).", "DESIGN.md §5 C01"),
 "C03": ("exploration", "bounded-exhaustive enumeration; independent strict RFC 8010 reference decoder/encoder (R1) as oracle; all map iteration orders observed",
         "The C01 message space; the library's bytes are decoded by an independently written strict RFC 8010 decoder, compared with what was encoded, and re-encoded by the reference encoder to identical octets, under every observed attribute iteration order.",
         "Trusts the reference codec R1 (self-checked on the byte vectors pinned by the repository's own tests and by decode∘encode=id over the skeleton space).", "DESIGN.md §5 C03"),
 "C20": ("exploration", "bounded-exhaustive enumeration of the C01 message space through serde_json on the real types",
         "Every message of the C01 space round-trips through serde_json as IppRequestResponse, IppAttributes and bare IppValue; payload must not be serialised and must read empty afterwards.",
         "JSON is the only carrier format exercised; trusts serde_json.", "DESIGN.md §5 C20"),
}

NOT_YET = {
}

def main():
    props = [json.loads(l) for l in open(os.path.join(ROOT, "properties.jsonl"))]
    checks = []
    na = []
    for p in props:
        pid = p["id"]
        if pid in CHECKS:
            cat, tech, text, note, ref = CHECKS[pid]
            checks.append({
                "property_id": pid,
                "quick_cmd": f"./check {pid} --tier quick",
                "thorough_cmd": f"./check {pid} --tier thorough",
                "evidence_file": f"/verif/evidence/{pid}.json",
                "replay_cmd_template": f"./check {pid} --replay {{path}}",
                "engine": "vmc",
                "level_claimed": {"category": cat, "text": text, "design_ref": ref},
                "level_note": note,
                "technique": tech,
            })
        else:
            na.append({"property_id": pid, "reason": NOT_YET.get(pid, "check not built yet in this round (planned in DESIGN.md §5); not a statement that the technique cannot apply")})
    m = {
        "version": 1,
        "setup_cmd": "cd /verif/engine && CARGO_NET_OFFLINE=true cargo build --release --offline -p hcore",
        "hooks": {
            "guard": "--cfg ipp_verif",
            "enable": "RUSTFLAGS=\"--cfg ipp_verif\" via /verif/engine/.cargo/config.toml ([build] rustflags); every ./check run rebuilds the ipp crate from /repo's working tree with it",
            "baseline_off_cmd": "cd /repo && cargo test --workspace --no-fail-fast --offline",
            "source_commits": HOOK_COMMITS,
            "add_only": True,
        },
        "engines": [
            {"name": "vmc", "path": "/verif/engine", "serves_properties": sorted(CHECKS.keys()),
             "kind_free_text": "hand-written stateless choice-tree explorer (deviation-bounded DFS), explicit-state BFS over real objects, scripted Read/AsyncRead environments with a manual executor, loopback peers; reference models in Rust; all verdicts from exhaustive enumeration of a stated bounded space executed on the real code"},
        ],
        "checks": checks,
        "not_applicable": na,
        "notes": "All checks run the implementation itself under an exhaustive bounded enumeration (model checking family); no sampling decides a verdict and no solver is consulted. See DESIGN.md.",
    }
    out = os.path.join(ROOT, "MANIFEST.json")
    json.dump(m, open(out, "w"), indent=1, ensure_ascii=False)
    try:
        import jsonschema
        jsonschema.validate(m, json.load(open("/root/.vp/MANIFEST.schema.json")))
        print("MANIFEST.json valid;", len(checks), "checks,", len(na), "not_applicable")
    except ImportError:
        print("jsonschema not available; wrote without validating")

if __name__ == "__main__":
    main()
