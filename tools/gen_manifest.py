#!/usr/bin/env python3
"""Regenerates /verif/MANIFEST.json from the table below (single source of truth) and validates it."""
import json, sys, os

ROOT = os.path.dirname(os.path.dirname(os.path.abspath(__file__)))

HOOK_COMMITS = ["5e1063a"]

# id -> (category, technique, text, note, design_ref)
CHECKS = {
 "C01": ("exploration", "bounded-exhaustive enumeration of the value model on the real encoder+parsers (stateless exploration, E1), all map iteration orders observed",
         "Every message of a bounded value model (skeleton-exhaustive within a node budget over a 3-syntax leaf alphabet; every boundary atom of all 22 kinds in every context class; 16-bit length sweep; small payloads x headers; look-alikes of the specially treated operation attribute names, pairs of distinct names colliding under a normalisation, the empty member name, long names/texts of multi-octet characters at every alignment) is built through the public API, serialised and parsed by both parsers, and compared with itself; each message is rebuilt until every HashMap iteration order of every group was observed. Coverage statement, not a sample; values outside the atom lists are only covered through the boundary witnesses.",
         "Trusts: the thin adapter ipp types -> model types; catch_unwind isolation; iteration orders covered by observation (complete for groups of <= 4 attributes).", "DESIGN.md §5 C01"),
 "C03": ("exploration", "bounded-exhaustive enumeration; independent strict RFC 8010 reference decoder/encoder (R1) as oracle; all map iteration orders observed",
         "The C01 message space; the library's bytes are decoded by an independently written strict RFC 8010 decoder, compared with what was encoded, and re-encoded by the reference encoder to identical octets, under every observed attribute iteration order.",
         "Trusts the reference codec R1 (self-checked on the byte vectors pinned by the repository's own tests and by decode∘encode=id over the skeleton space).", "DESIGN.md §5 C03"),
 "C20": ("exploration", "bounded-exhaustive enumeration of the C01 message space through serde_json on the real types",
         "Every message of the C01 space round-trips through serde_json as IppRequestResponse, IppAttributes and bare IppValue; payload must not be serialised and must read empty afterwards.",
         "JSON is the only carrier format exercised; trusts serde_json.", "DESIGN.md §5 C20"),
 "C02": ("exploration", "process-isolated bounded-exhaustive sweeps (bytes, tag x length grid, inner lengths, all token sequences, all grammar-aware mutations, structural bombs incl. nesting with a sibling value at every level) on both parsers and the value decoder",
         "Every input of six exhaustively enumerated families runs through IppParser, AsyncIppParser and IppValue::parse in worker processes with a 2 MiB stack; every Ok result is displayed, re-encoded, traversed, cloned and dropped. Panic, death by signal and stalled heartbeat are violations, confirmed by re-running the single case alone in a fresh process.",
         "Totality is claimed for the enumerated families only (see rule); inputs above 1 MiB are out of scope. Trusts the OS to report signals and the heartbeat file.", "DESIGN.md §5 C02"),
 "C04": ("model_checking", "exhaustive enumeration of all token sequences <= k and of bounded grammar trees, partitioned by the reference decoder R1; every accepted trace executed on the real parser",
         "All 16^k token sequences (k=5 quick, 6 thorough) are classified by an independent strict RFC 8010 decoder; every well-formed one, plus bounded wire-level trees with free group order, every tag 0x10-0x4a at boundary lengths and invalid UTF-8, is parsed by parse and parse_parts and compared with the reference reading; reserved bytes at every tag position must be rejected.",
         "Trusts R1 as the reading of RFC 8010. Bytes 0x06-0x0a at a tag position are outside the rejection rule.", "DESIGN.md §5 C04"),
 "C05": ("model_checking", "stateless exploration of delivery schedules under a scripted AsyncRead and a hand-written executor: all 2^(n-1) chunk compositions of short messages, deviation-bounded not-ready/wake patterns for long ones; oracle = blocking parser",
         "Async parser outcome equals the blocking parser outcome (content, payload, offending tag, I/O error kind) under every composition of every short message and under uniform / 1-cut / 2-cut fragmentations with every not-ready pattern (immediate, deferred wake, spurious re-poll) for a large well-formed and malformed input set; lost wake-ups and unbounded polling are violations.",
         "The executor owns all wake-ups (no runtime). Long inputs are covered up to 2 cuts with <= 2 not-ready answers per boundary, not all compositions.", "DESIGN.md §5 C05"),
 "C06": ("model_checking", "stateless exploration of read fragmentations (all compositions for short messages, uniform/1-cut/2-cut for long) x Interrupted / not-ready answers, with a consumption monitor inside the scripted source",
         "At the moment parse / parse_parts returns, the source has delivered exactly |header+attributes| bytes and no read ever asked beyond it; the payload read afterwards is byte-identical - also when it is read through the other interface than the one that parsed (async-parsed -> Read, blocking-parsed -> AsyncRead) from a source that keeps fragmenting / answering not-ready; the result equals whole delivery - for both parsers; documents of 1 GiB + 4097 (4 GiB + 4097) bytes streamed from a pattern generator come through exactly, also through vectored async reads; a length ladder (every multiple of 1000 / 1024 +-1) covers name, value and member-name lengths.",
         "Monitor counts bytes requested/delivered at the Read/AsyncRead seam; an implementation that peeks through another channel is out of reach.", "DESIGN.md §5 C06"),
 "C07": ("fault_enumeration", "exhaustive single-fault injection: every cut offset and every (offset, error kind) on every corpus message (incl. long multi-octet names/texts at every alignment), both parsers, both entry points, two delivery variants, four error shapes (bare kind, text payload, payload wrapping another io::Error, raw OS error), with an evaluating logger installed",
         "Every proper prefix of the header+attributes section of every corpus message is rejected with UnexpectedEof, and every injected I/O error kind at every offset comes back as that kind; never Ok, never partial, never a panic.",
         "Single faults only (one cut or one error per run).", "DESIGN.md §5 C07"),
 "C08": ("model_checking", "exhaustive product of payload sources x lengths x consumer buffer-size sequences x interfaces on the real stream adaptors, scripted sources and manual executor",
         "Reading a message as a stream through into_read / into_async_read (and a bare IppPayload through both interfaces) yields exactly to_bytes() ++ payload then end-of-stream, for every payload source kind (incl. sync-as-async and async-as-sync bridging with not-ready answers), boundary payload lengths and every buffer-size prefix of length <= 2 (3); a payload source that fails (10 error kinds x 5 offsets x both source kinds x both interfaces) never makes the stream end cleanly, a transient failure loses nothing for a consumer that reads on, vectored consumers (five slice shapes) get the same stream, and payloads of 1 GiB + 4097 (4 GiB + 4097) bytes from a pattern generator come through exactly.",
         "Deferred wake-ups under block_on are fired by a helper OS thread; its timing cannot change the byte stream.", "DESIGN.md §5 C08"),
 "C09": ("model_checking", "exhaustive enumeration of builder programs x addition sequences, each re-run until all m! HashMap iteration orders were observed; oracle on R1-decoded bytes",
         "For every builder/constructor program followed by every sequence of <= 2 (3) further additions, under every iteration order of the unordered operation attributes (m <= 4, complete permutation coverage), the encoded message starts with the operation group, charset, natural-language, then printer-uri/job-uri and job-id in RFC 8011 order; every operation attribute name of RFC 8011 / CUPS and look-alikes of the mandatory names are among the additions; one base is built from IppAttributes::new() with another group first.",
         "Iteration orders are covered by observation (verdict only on complete coverage).", "DESIGN.md §5 C09"),
 "C10": ("model_checking", "choice-tree exploration (E1) of every builder call sequence <= 4 (5) calls over small argument domains; oracle = builder spec R4 written from RFC 8011",
         "Every sequence of builder calls for each of the 10 operations (plus URI sweep, payload sweep, direct constructors, raw constructors with every version) yields exactly the request the spec R4 derives from the arguments, in memory and after to_bytes() -> R1.decode; long argument lists (5..300 attributes over few names, three ways of handing them over) keep last-wins and order.",
         "R4 was written from the property statement and RFC 8011 4.2-4.3, not from operation.rs.", "DESIGN.md §5 C10"),
 "C11": ("fault_enumeration", "exhaustive enumeration of peer scripts (framings x write fragmentations x every status x every cut offset x stalls and slow-but-steady dribbling x N! answer orders) and client configurations against a hand-written loopback HTTP peer; real clients, real sockets",
         "Both clients: request side (exact POST target, Host, content-type, custom headers, Basic credentials, body = request + payload) over the product of requests x payloads x configurations x paths x schemes; response side over framings x write plans incl. every two-piece split; every 4xx/5xx; cut after every offset of header+attributes under each framing; stalls and dribbling servers (never silent for long, slower overall than the timeout) with/without timeout; the URL really contacted for 5 760 target shapes x configurations; a request changed after to_bytes(); two sends through one client; connections reset (RST) with later connections served; no failure scenario may open a second connection; HTTP errors carry four body kinds (incl. an IPP error response); six spellings of the Content-Type line; response documents and request payloads of 256 MiB + 4097 (1 GiB + 4097) bytes under each framing; N concurrent senders with every answer order.",
         "Thread interleavings inside hyper/tokio/ureq are not controlled (send(&self) builds a fresh agent per call; the answer order - the only cross-request channel - is enumerated). Verdicts depend only on outcome classes stable under TCP coalescing. The system trust store is replaced by an empty one.", "DESIGN.md §5 C11"),
 "C12": ("exploration", "complete finite matrix of 1120 (2240) TLS configurations, one real handshake each against a loopback TLS peer with run-time minted certificates; two builds for the two backends",
         "{blocking, async} x {native-tls, rustls} x ignore flag {unset, false, true, true-then-false, false-then-true on one builder} x extra root {none, correct PEM, correct DER, unrelated, correct DER ending in a white-space octet, correct PEM with CRLF, correct PEM with UTF-8 explanatory text around the armour} x server certificate kind x target host form {localhost with a DNS SAN, 127.0.0.1 with an iPAddress SAN, and the two mismatches}, complete, plus every ordered pair of an 8-configuration subset in a fresh process; accepted iff the last ignore call said true or (correct root and valid certificate matching the target host); on rejection no application byte reaches the peer.",
         "localhost resolves to 127.0.0.1; system trust store replaced by an empty one (SSL_CERT_FILE/SSL_CERT_DIR).", "DESIGN.md §5 C12"),
 "C18": ("exploration", "exhaustive enumeration of command lines x scripted printers on the real ipputil binary built from /repo, observed at a loopback peer",
         "Option lists of length 0..2 (3) over 12 option texts x job/user names, 24 typing witnesses (zero-padded / negative / out-of-range decimals, look-alikes) judged by an independent decimal rule; Print-Job answered with a sweep of 825 status codes; the Print-Job connection reset with later connections served (every content size, file and stdin); five further spellings of the Content-Type line; contents incl. BufReader boundaries and MiBs, file and stdin; all printer answer scripts (ready / stopped / blocked / IPP error / HTTP error / cut) with and without the state check. Oracle: request sequence, typed options, document octets, exit status.",
         "The binary is rebuilt from /repo's working tree on every run; runs are real processes against real sockets.", "DESIGN.md §5 C18"),
 "C13": ("exploration", "complete product of 80 640 target URIs through the helper and every constructor; oracle = string-level RFC 3986 splitter R3",
         "The whole D-uri product is canonicalised by the helper (plus idempotence) and by the raw constructor, a sub-product by all builders; the printer-uri never contains user-info or query and keeps host, port and path.",
         "URIs that http::Uri rejects are outside the domain.", "DESIGN.md §5 C13"),
 "C14": ("exploration", "complete product of 80 640 target URIs through the cfg-guarded hook (oracle = R3) plus complete enumeration of 5 760 target shapes x client configurations observed on the wire by a loopback peer",
         "ipp->http, ipps->https, default port 631 for both, everything else unchanged, http/https untouched - over the whole D-uri product; and both clients really contact that URL (request target, Host header, one connection) for every combination of scheme, host, user-info, path and query (with '@', ':' and '/' inside them) and client configuration (plain, basic_auth, custom header, Authorization header). Port-less ipps -> 443 is the recorded known finding KF-C14-1 (pinned by the repository's own test).",
         "Hook verif_transport_url is a pass-through to the private mapper; the wire half only reaches hosts that resolve to the loopback interface and explicit ports.", "DESIGN.md §5 C14"),
 "C15": ("exploration", "exhaustive enumeration of all two-phase periodic input families over the token alphabet x doubling sizes; counting allocator with budget + callgrind instruction counts",
         "Every family header.u^n.v^n.end (|u|<=2, |v|<=1 quick / 2 thorough), value-length, distinct-name, distinct-member and long-name-with-many-values families: allocation during parse is bounded by one linear constant, callgrind instruction counts grow < 2.6x per doubling for the costliest and structurally dangerous families, wall-clock only as a 100x backstop.",
         "Bounded evidence for an asymptotic claim; aperiodic adversarial inputs are outside the class.", "DESIGN.md §5 C15"),
 "C16": ("exploration", "complete enumeration of all 65 536 codes / 256 tag bytes against registry tables R2",
         "Status decoding is total and exact over all 16-bit codes, for every protocol version x request-id, in memory and on parsed responses (bare and with attribute groups; the parser must not alter the status word); the readiness helper's status gate (all codes, with and without a printer group) and the command-line tool's own classification (exit status of ipputil print for 825 status codes) agree; operation ids, delimiter and value tags and the five enum types never map a code to a symbol of a different code; success classification is right on 0-2 and never true >= 0x0100; each value kind is emitted with its registered tag.",
         "Registry tables typed in from RFC 8010/8011, PWG 5100.1, CUPS. Completeness is demanded for status codes only (as the property states).", "DESIGN.md §5 C16"),
 "C17": ("exploration", "exhaustive product status x state x reason tuples x shape x context; oracle = readiness spec R5 (defined regions only)",
         "All 65 536 statuses through the gate; every ordered tuple of 1..2 (3) reason keywords (3 (4) on a reduced product) over 10 blocking + 6 informational words, 9 printer-state forms, in-memory and parsed-from-wire shapes, seven contexts (decoy groups, split printer groups).",
         "Cases outside the three regions the statement defines accept any Ok(_).", "DESIGN.md §5 C17"),
 "C19": ("model_checking", "explicit-state BFS to a fixpoint (closed state space) over real IppAttributes objects rebuilt from histories; reference = ordered container model R6; exhaustive traversal check",
         "The reachable state space of add() over a 16 (24)-operation alphabet is explored to a fixpoint from the empty container and from parser-produced messages with repeated/empty groups; every transition compares groups(), groups_of(kind) and into_groups() with the model. Value traversal is compared element-by-element (pointer identity), also through nth / skip / step_by / count on a partly consumed traversal, for every value of a bounded value space and for collections over every subset of <= 3 of 11 tricky member names (empty, case twins, NFC/NFD, trailing blank/NUL), built in memory and parsed.",
         "Canonical state = ordered (kind, sorted map) list; holds for histories of any length over the alphabet because the space is closed.", "DESIGN.md §5 C19"),
}

NOT_YET = {
}

def main():
    props = [json.loads(l) for l in open(os.path.join(ROOT, "properties.jsonl"))]
    checks = []
    na = []
    for p in props:
        pid = p["id"]
        if pid in CHECKS:
            cat, tech, text, note, ref = CHECKS[pid]
            checks.append({
                "property_id": pid,
                "quick_cmd": f"./check {pid} --tier quick",
                "thorough_cmd": f"./check {pid} --tier thorough",
                "evidence_file": f"/verif/evidence/{pid}.json",
                "replay_cmd_template": f"./check {pid} --replay {{path}}",
                "engine": "vmc",
                "level_claimed": {"category": cat, "text": text, "design_ref": ref},
                "level_note": note,
                "technique": tech,
            })
        else:
            na.append({"property_id": pid, "reason": NOT_YET.get(pid, "check not built yet in this round (planned in DESIGN.md §5); not a statement that the technique cannot apply")})
    m = {
        "version": 1,
        "setup_cmd": "cd /verif/engine && export CARGO_NET_OFFLINE=true && cargo build --release --offline -p hcore && cargo build --release --offline -p hnet-native && cargo build --release --offline -p hnet-rustls && cargo build --release --offline --manifest-path /repo/Cargo.toml -p ipp-util --target-dir /verif/target/util",
        "hooks": {
            "guard": "--cfg ipp_verif",
            "enable": "RUSTFLAGS=\"--cfg ipp_verif\" via /verif/engine/.cargo/config.toml ([build] rustflags); every ./check run rebuilds the ipp crate from /repo's working tree with it",
            "baseline_off_cmd": "cd /repo && cargo test --workspace --no-fail-fast --offline",
            "source_commits": HOOK_COMMITS,
            "add_only": True,
        },
        "engines": [
            {"name": "vmc", "path": "/verif/engine", "serves_properties": sorted(CHECKS.keys()),
             "kind_free_text": "hand-written stateless choice-tree explorer (deviation-bounded DFS), explicit-state BFS over real objects, scripted Read/AsyncRead environments with a manual executor, loopback peers; reference models in Rust; all verdicts from exhaustive enumeration of a stated bounded space executed on the real code"},
        ],
        "checks": checks,
        "not_applicable": na,
        "notes": "All checks run the implementation itself under an exhaustive bounded enumeration (model checking family); no sampling decides a verdict and no solver is consulted. See DESIGN.md.",
    }
    out = os.path.join(ROOT, "MANIFEST.json")
    json.dump(m, open(out, "w"), indent=1, ensure_ascii=False)
    try:
        import jsonschema
        jsonschema.validate(m, json.load(open("/root/.vp/MANIFEST.schema.json")))
        print("MANIFEST.json valid;", len(checks), "checks,", len(na), "not_applicable")
    except ImportError:
        print("jsonschema not available; wrote without validating")

if __name__ == "__main__":
    main()
